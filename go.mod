module verif

go 1.23

require (
	github.com/anishathalye/porcupine v1.3.0
	github.com/zerx-lab/wordZero v0.0.0
	golang.org/x/tools v0.29.0
)

require (
	github.com/litao91/goldmark-mathjax v0.0.0-20210217064022-a43cf739a50f // indirect
	github.com/yuin/goldmark v1.7.8 // indirect
	golang.org/x/mod v0.22.0 // indirect
	golang.org/x/sync v0.10.0 // indirect
)

replace github.com/zerx-lab/wordZero => /repo
