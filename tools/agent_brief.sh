#!/bin/sh
# usage: tools/agent_brief.sh <name> <first-variant-letter> <second-variant-letter>   (development tool)
# Writes /tmp/agents/<name>/BRIEF.md: the whole brief a sub-agent gets (property text, rules, deliverables,
# summaries of earlier seeded changes for that property so that it writes different ones). Nothing about the checks.
name="$1"; p=$(echo "$name" | cut -c1-3); v1="$2"; v2="$3"
d=/tmp/agents/$name
python3 - "$p" > "$d/avoid.txt" <<PY
import json,glob,os,sys
for x in sorted(glob.glob('/verif/seeded/%s*/meta.json'%sys.argv[1])):
    m=json.load(open(x)); print('-',m['summary'][:400].replace('\n',' '))
PY
cat > "$d/BRIEF.md" <<EOF
# Task: write two deliberately *broken* variants of a Go library (for testing a verification harness)

You work ONLY inside the scratch git worktree \`$d/wt\` (a checkout of the Go library zerx-lab/wordZero: pure-Go .docx
library, module root = worktree root, packages under pkg/). Never read or write /repo or /verif. Put deliverables in \`$d/out/\`.

Every shell command needs: \`export GOFLAGS=-mod=mod GOPROXY=off GOSUMDB=off GOTOOLCHAIN=local\` (no network; all modules are cached).

## The property your changes must break

$(cat $d/property.txt)

## What to produce

Two independent changes (variant **$v1** and variant **$v2**) to the library source under \`pkg/\`, each of which:

1. still compiles, and the existing test suite still passes unedited: \`go test -vet=off -count=1 ./pkg/... ./test/...\` (run it; ~1-2 min);
2. makes the library violate the property above — really violate its *statement*, for some input/history the quantifier covers;
3. looks like something a maintainer could plausibly commit (an optimisation, a refactor, a "robustness" tweak, a cache, a shortcut, a
   small bug fix that is wrong) — not sabotage, no special-casing of magic values, no dead code, no randomness, no env vars, no time-bombs;
4. **needs something specific to manifest** — a particular goroutine interleaving, a crash / I/O fault at a particular point, a multi-step
   sequence of operations (history), state carried over a save→open cycle, an unusual-but-legal input, or two cooperating sites that each
   look fine alone. Ordinary first-try use of the API must still work. Prefer mechanisms that depend on *history, faults, restarts (save+reopen),
   interference between documents, or scheduling* over plain wrong-output-for-input bugs;
5. is small (typically 5-40 changed lines) and differs in mechanism from the other variant and from the earlier changes listed below.

Earlier changes already written for this property (do NOT repeat these mechanisms):

$(cat $d/avoid.txt)

## Deliverables (per variant X in {$v1, $v2}), in \`$d/out/X/\`

* \`patch.diff\` — \`git diff\` of the worktree (library files under pkg/ only; must apply to a clean checkout of the same commit with \`git apply\`).
* \`verifdemo/demo_test.go\` — a Go test file, \`package verifdemo\`, that lives at \`<worktree>/verifdemo/\` when run, uses only the public API of the
  library (import path prefix \`github.com/zerx-lab/wordZero/pkg/...\`; check go.mod), and for which \`go test -count=1 ./verifdemo/\` **fails with the
  change and passes without it**. It must be deterministic (if it needs goroutines, force the interleaving or use -race in demo_cmd; if it needs
  an I/O fault, create it for real, e.g. RLIMIT/readonly dir/faulty io.Reader). It must check the property's statement, not implementation details.
* \`meta.json\` — \`{"property": "$p", "variant": "X", "summary": "<what was changed, 2-4 sentences>", "breaks": "<which clause of the property fails and how>",
  "needs": "<what it needs in order to manifest>", "files": ["pkg/..."], "demo_cmd": "go test -count=1 ./verifdemo/"}\`

Work on one variant at a time: make the change, run the suite, write and run the demo (with the change: FAIL), save \`git diff\` to a file and \`git checkout -- pkg\` (NEVER use \`git stash\`: the stash is shared with other worktrees) to
confirm the demo PASSES without it, save the three files, then reset the worktree (\`git checkout -- pkg && rm -rf verifdemo\`) before the second variant.
Read the code the anchors point at first. If the existing suite fails with your change, change your approach rather than the tests.
When done, reply with a 5-line summary per variant (what, needs, demo result with/without, suite result).
EOF
echo "$d/BRIEF.md"
