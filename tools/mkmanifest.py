#!/usr/bin/env python3
"""Regenerates /verif/MANIFEST.json from the table below (one row per claimed property)."""
import json, subprocess

TECH = "deterministic simulation with fault injection: "
claims = {
 "C01": dict(level="exploration", design="§5 C01",
   text="Package well-formedness invariant (independent ZIP/XML reader) evaluated at every save event of seeded API histories with hostile strings, both save entry points, document and process restarts and simulator-chosen map-iteration orders. Sampled search: a clean batch is evidence, not proof.",
   note="Trusted: archive/zip and encoding/xml (strict) in the oracle; XML 1.0 Char check is explicit. Schema validity is out of scope.",
   tech=TECH+"seeded histories, restart as crash, map-order seam, invariant at every save event"),
 "C02": dict(level="exploration", design="§5 C02",
   text="Relationship-graph invariant (unique ids, resolvable targets, correct owner part, typed r:id/r:embed resolution) at every save event of seeded histories, including packages from an independent foreign producer with arbitrary relationship ids, extended and restarted.",
   note="Trusted: the foreign producer and the inspector are simulator code. Duplicate relationships to one target with different ids are legal OPC and not flagged.",
   tech=TECH+"seeded histories over foreign-producer and own packages, restart as crash, invariant at every save event"),
 "C05": dict(level="fault_enumeration", design="§5 C05, §3.5",
   text="For each generated document the write-failure point is enumerated over every byte offset of the output file (RLIMIT_FSIZE enforced by the real kernel against the unmodified Save), plus ENOSPC devices and unwritable targets; exhaustive per listed document, sampled over documents.",
   note="Trusted: the kernel's RLIMIT_FSIZE/ENOSPC behaviour as a stand-in for every failing write(2); the independent ZIP reader in /verif/inspect. Not covered: errors surfaced only by close(2)/fsync.",
   tech=TECH+"per-byte write-fault enumeration"),
 "C13": dict(level="exploration", design="§5 C13",
   text="Id-closure invariant (style, numbering, note ids used vs defined; API-added styles present) at every save event of seeded histories with intermediate saves, document restarts and process restarts that empty the process-wide registries; six listed known findings are probed by directed witnesses.",
   note="Lane A keeps out of the preconditions of the listed known findings (styles part frozen after serialisation, numbering overwritten on opened documents, undefined table-template/TOC style ids); each is re-confirmed by its witness on every run.",
   tech=TECH+"seeded histories, document/process restart, invariant at every save event"),
}
na = {
 "C14": "style inheritance resolution is a pure function of (registry, id): no I/O, shared state, lock, clock or map-order dependence for a schedule or fault to vary (DESIGN.md §6)",
 "C19": "Markdown->Word conversion is a pure function of (bytes, options); totality/fidelity over inputs is fuzzing/differential testing, not simulation (DESIGN.md §6)",
 "C20": "Word->Markdown export is a pure function of (document, options) into a private builder; no schedule, fault or shared state (DESIGN.md §6)",
}
EXTRA = {}
try:
    exec(open('/verif/tools/claims_extra.py').read())
except FileNotFoundError:
    pass
claims.update(EXTRA)
ids = ["C%02d" % i for i in range(1, 21)]
pending = [i for i in ids if i not in claims and i not in na]
hooks = subprocess.run(["git", "-C", "/repo", "log", "--format=%h", "--grep=^verif hooks"], capture_output=True, text=True).stdout.split()
m = {
 "version": 1,
 "setup_cmd": "./setup.sh",
 "hooks": {
  "guard": "verif",
  "enable": "go build -tags verif (workers are built by bin/check from a scratch copy of /repo's working tree with -tags verif; the copy is additionally rewritten so that map iteration order and sync.RWMutex go through simulator-owned seams)",
  "baseline_off_cmd": "cd /repo && GOFLAGS=-mod=mod go test -json -vet=off -count=1 -timeout 25m ./...",
  "source_commits": hooks,
  "add_only": True,
 },
 "engines": [{"name": "docsim", "path": "/verif", "serves_properties": sorted(claims), "kind_free_text": "deterministic simulation with fault injection: seeded histories over the public API, simulator-owned map order / lock scheduling / restarts / I/O faults, reference models and package invariants as oracles"}],
 "checks": [],
 "not_applicable": [{"property_id": k, "reason": v} for k, v in sorted(na.items())] +
    [{"property_id": k, "reason": "claimed in DESIGN.md but its check is not built yet (work in progress); nothing is asserted about it"} for k in pending],
 "notes": "See DESIGN.md §1 for the verdict table and KNOWN_FINDINGS.txt for recorded defects and fixes.",
}
for k in sorted(claims):
    c = claims[k]
    m["checks"].append({
     "property_id": k,
     "quick_cmd": "./bin/check %s --tier quick" % k,
     "thorough_cmd": "./bin/check %s --tier thorough" % k,
     "evidence_file": "evidence/%s.json" % k,
     "replay_cmd_template": "./bin/check %s --replay {path}" % k,
     "engine": "docsim",
     "level_claimed": {"category": c["level"], "text": c["text"], "design_ref": "DESIGN.md " + c["design"]},
     "level_note": c["note"],
     "technique": c["tech"],
    })
json.dump(m, open("/verif/MANIFEST.json", "w"), indent=1, ensure_ascii=False)
print("claimed:", sorted(claims), "pending:", pending)
