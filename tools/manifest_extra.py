extra = {
 "C17": ("exploration",
  "One template engine shared by seeded tasks that run as goroutines under a baton scheduler with every lock operation of the engine as a yield point, in the -race build. Oracles: reflective deep-digest purity of base documents, data and loaded templates; linearizability of the recorded load/render/remove history (porcupine) against a version-chain model whose render outputs come from fresh engines; empty race log; no deadlock. Sampled over histories and schedules.",
  "Trusted: porcupine (Unknown = inconclusive, never reported), the Go race detector, reflection over private fields. The search lane keeps out of the listed finding (a child load writes into its parent); three witnesses re-confirm it and three schedules re-check the fixed double-lookup defect.",
  T+"seeded lock-level scheduler over the real engine, linearizability check of recorded histories, purity snapshots, race detector", "§5 C17, §3.3"),
}
