#!/bin/sh
# usage: tools/try_batch.sh "<name>:<prop>[,<prop>...]" ...   (development tool; works from a vp-run snapshot)
# Runs the quick checks of the given properties against each seeded change in a scratch worktree; stops per change at the first check that reports it.
V=$(cd "$(dirname "$0")/.." && pwd)
export VERIF_DIR=$V MT_SUFFIX=-$$
. $V/env.sh
cd $V
[ -x bin/check ] || { mkdir -p bin; go build -o bin/check ./cmd/check && go build -o bin/instrument ./cmd/instrument; } || exit 2
for spec in "$@"; do
  n=${spec%%:*}; ps=$(echo "${spec#*:}" | tr ',' ' ')
  for p in $ps; do
    out=$(TAIL=${TAIL:-4} tools/try_mutant_wt.sh $n $p 2>&1)
    echo "$out"
    case "$out" in *"exit=1"*) break;; esac
  done
done
rm -rf /tmp/mt-$$ /tmp/mt-out-$$
