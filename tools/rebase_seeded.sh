#!/bin/sh
# usage: tools/rebase_seeded.sh <seeded-name> <base-commit>   (development tool)
# Re-bases /verif/seeded/<name>/patch.diff from <base-commit> onto /repo HEAD in a scratch worktree
# (cherry-pick; where both sides only added lines at one place, both are kept), checks that it builds,
# and rewrites patch.diff. The scratch worktree is removed afterwards.
name="$1"; base="$2"
. /verif/env.sh
wt=/tmp/rbs/$name
rm -rf "$wt"; mkdir -p /tmp/rbs
git -C /repo worktree add -q --detach "$wt" "$base" || exit 2
trap 'git -C /repo worktree remove --force "$wt" 2>/dev/null; rm -rf "$wt"' EXIT
cd "$wt"
git apply /verif/seeded/$name/patch.diff || { echo "REBASE $name: does not apply to $base"; exit 1; }
git -c user.name=x -c user.email=x@x commit -qam "seeded $name" || exit 1
c=$(git rev-parse HEAD)
git checkout -q --detach "$(git -C /repo rev-parse HEAD)"
git -c user.name=x -c user.email=x@x cherry-pick -n "$c" >/dev/null 2>&1
# conflicts where both sides only added lines: keep both sides
for f in $(grep -rl '^<<<<<<<' pkg 2>/dev/null); do
  python3 - "$f" <<'PY'
import sys,re
p=sys.argv[1]; out=[]
for ln in open(p):
    if ln.startswith('<<<<<<< ') or ln.startswith('>>>>>>> ') or ln.startswith('=======') or ln.startswith('||||||| '):
        continue
    out.append(ln)
open(p,'w').writelines(out)
PY
done
if grep -rl '^<<<<<<<\|^>>>>>>>' pkg >/dev/null 2>&1; then echo "REBASE $name: conflict markers remain"; exit 1; fi
gofmt -l pkg >/dev/null
go build ./pkg/... || { echo "REBASE $name: does not build after re-basing"; exit 1; }
git diff HEAD -- pkg > /verif/seeded/$name/patch.diff
echo "REBASE $name: ok ($(wc -l < /verif/seeded/$name/patch.diff) lines)"
