#!/bin/sh
# usage: tools/agent_wt.sh <name>   (development tool)
# Creates a scratch worktree of /repo HEAD for a sub-agent that writes a seeded change,
# and a file with the text of the property it is to break. Nothing from /verif is given.
name="$1"; p=$(echo "$name" | cut -c1-3)
d=/tmp/agents/$name
rm -rf "$d"; mkdir -p "$d/out"
git -C /repo worktree prune
git -C /repo worktree add -q --detach "$d/wt" HEAD || exit 2
python3 - "$p" > "$d/property.txt" <<PY
import json,sys
for l in open('/verif/properties.jsonl'):
    q=json.loads(l)
    if q['id']==sys.argv[1]:
        print(q['title']); print(); print(q['statement']); print(); print('Quantified over:', q.get('quantifier')); print(); print('code anchors:', json.dumps(q.get('anchors'),ensure_ascii=False,indent=1))
PY
echo "$d"
