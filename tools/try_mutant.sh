#!/bin/sh
# usage: tools/try_mutant.sh <patch.diff> <property>...   (development tool)
# Applies a seeded change to /repo, runs the quick checks named, and undoes it.
patch="$1"; shift
cd /verif && . ./env.sh
git -C /repo diff --quiet || { echo "/repo is dirty"; exit 2; }
git -C /repo apply "$patch" || { echo "patch does not apply"; exit 2; }
trap 'git -C /repo checkout -- . ; git -C /repo clean -fdq pkg' EXIT INT TERM
for p in "$@"; do
  echo "=== $p on $(basename $(dirname $patch))"
  ./bin/check "$p" --tier quick ${RUNS:+--runs $RUNS} 2>&1 | grep -v '^KNOWN-FINDING' | cut -c1-900 | tail -${TAIL:-8}
  echo "exit=$?"
done
