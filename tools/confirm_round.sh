#!/bin/sh
# usage: tools/confirm_round.sh <agent-name> <letter>...   (development tool)
# Confirms the variants a sub-agent left under /tmp/agents/<agent-name>/out/<letter>/ as seeded changes <Cxx><letter>,
# then removes the agent's scratch worktree.
a="$1"; shift; p=$(echo "$a" | cut -c1-3)
for l in "$@"; do
  /verif/tools/confirm_mutant.sh /tmp/agents/$a/out/$l $p$l 2>&1 | grep -v conda | tail -3
  [ -f /verif/seeded/$p$l/meta.json ] && python3 - /verif/seeded/$p$l/meta.json <<PY
import json,sys
m=json.load(open(sys.argv[1])); m['round']=int(open("/tmp/agents/round").read()); m['base_commit']='$(git -C /repo rev-parse --short HEAD)'
json.dump(m,open(sys.argv[1],'w'),indent=1,ensure_ascii=False)
PY
done
git -C /repo worktree remove --force /tmp/agents/$a/wt 2>/dev/null; rm -rf /tmp/agents/$a/wt; git -C /repo worktree prune
