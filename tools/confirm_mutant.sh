#!/bin/sh
# usage: tools/confirm_mutant.sh <agent-worktree-dir> <seeded-name>
# Confirms a seeded change independently in a fresh scratch worktree of /repo:
#  compiles, existing suite passes, demo fails with the change, demo passes without it.
# On success stores patch.diff, the demo and meta.json under /verif/seeded/<name>/.
src="$1"; name="$2"
. /verif/env.sh
wt=/tmp/cm/$name
rm -rf "$wt"; mkdir -p /tmp/cm
git -C /repo worktree add -q --detach "$wt" HEAD || exit 2
fin() { git -C /repo worktree remove --force "$wt" 2>/dev/null; rm -rf "$wt"; }
trap fin EXIT
cd "$wt"
git apply "$src/patch.diff" || { echo "CONFIRM $name: patch does not apply"; exit 1; }
go build ./pkg/... || { echo "CONFIRM $name: does not compile"; exit 1; }
suite=$(go test -vet=off -count=1 ./pkg/... ./test/... 2>&1)
echo "$suite" | grep -q "^FAIL\|^--- FAIL" && { echo "CONFIRM $name: existing suite FAILS with the change"; echo "$suite" | grep "FAIL" | head; exit 1; }
cp -r "$src/verifdemo" ./verifdemo
democmd=$(python3 -c "import json;print(json.load(open('$src/meta.json')).get('demo_cmd','go test -count=1 ./verifdemo/'))")
with=$(sh -c "$democmd" 2>&1); wrc=$?
git apply -R "$src/patch.diff"
without=$(sh -c "$democmd" 2>&1); worc=$?
if [ $wrc -eq 0 ]; then echo "CONFIRM $name: demo PASSES with the change (expected failure)"; exit 1; fi
if [ $worc -ne 0 ]; then echo "CONFIRM $name: demo FAILS without the change"; echo "$without" | tail -5; exit 1; fi
dst=/verif/seeded/$name
mkdir -p "$dst"
cp "$src/patch.diff" "$dst/patch.diff"
rm -rf "$dst/verifdemo"; cp -r "$src/verifdemo" "$dst/verifdemo"
python3 - "$src/meta.json" "$dst/meta.json" "$democmd" <<PY
import json,sys
m=json.load(open(sys.argv[1]))
m["confirmed"]={"by":"tools/confirm_mutant.sh in a fresh scratch worktree of /repo HEAD","suite_cmd":"go test -vet=off -count=1 ./pkg/... ./test/...","suite":"pass with the change","demo_cmd":sys.argv[3],"demo_with_change":"FAIL","demo_without_change":"PASS"}
json.dump(m,open(sys.argv[2],"w"),indent=1,ensure_ascii=False)
PY
echo "CONFIRM $name: ok"
