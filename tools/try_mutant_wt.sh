#!/bin/sh
# usage: tools/try_mutant_wt.sh <seeded-name> <property>...   (development tool)
# Runs quick checks against a scratch worktree of /repo that carries the seeded
# change /verif/seeded/<name>/patch.diff; /repo itself is not touched.
name="$1"; shift
. /verif/env.sh
wt=/tmp/mt/$name
rm -rf "$wt"; mkdir -p /tmp/mt
git -C /repo worktree add -q --detach "$wt" HEAD || exit 2
trap 'git -C /repo worktree remove --force "$wt" 2>/dev/null; rm -rf "$wt" /tmp/mt-out/$name' EXIT INT TERM
git -C "$wt" apply /verif/seeded/$name/patch.diff 2>/dev/null || { b=$(python3 -c "import json;print(json.load(open(\"/verif/seeded/$name/meta.json\"))[\"base_commit\"])"); echo "patch does not apply to HEAD: using base commit $b"; git -C "$wt" checkout -q $b && git -C "$wt" apply /verif/seeded/$name/patch.diff || { echo "patch does not apply"; exit 2; }; }
cd /verif
for p in "$@"; do
  out=$(VERIF_REPO=$wt VERIF_OUT=/tmp/mt-out/$name ./bin/check "$p" --tier quick ${RUNS:+--runs $RUNS} 2>&1); rc=$?
  echo "=== $name $p exit=$rc"
  echo "$out" | grep -v '^KNOWN-FINDING' | cut -c1-600 | tail -${TAIL:-6}
done
