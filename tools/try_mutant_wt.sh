#!/bin/sh
# usage: tools/try_mutant_wt.sh <seeded-name> <property>...   (development tool)
# Runs quick checks against a scratch worktree of /repo that carries the seeded
# change /verif/seeded/<name>/patch.diff; /repo itself is not touched.
name="$1"; shift
V=${VERIF_DIR:-/verif}
. $V/env.sh
wt=/tmp/mt${MT_SUFFIX}/$name
rm -rf "$wt"; mkdir -p /tmp/mt${MT_SUFFIX}
git -C /repo worktree add -q --detach "$wt" HEAD || exit 2
trap 'git -C /repo worktree remove --force "$wt" 2>/dev/null; rm -rf "$wt" /tmp/mt-out${MT_SUFFIX}/$name' EXIT INT TERM
pin=$(python3 -c "import json;m=json.load(open(\"$V/seeded/$name/meta.json\"));print(m['base_commit'] if m.get('use_base_commit') else '')")
[ -n "$pin" ] && { echo "pinned to base commit $pin (a later repair removes what this change needs)"; git -C "$wt" checkout -q $pin; }
git -C "$wt" apply $V/seeded/$name/patch.diff 2>/dev/null || { b=$(python3 -c "import json;print(json.load(open(\"$V/seeded/$name/meta.json\"))[\"base_commit\"])"); echo "patch does not apply to HEAD: using base commit $b"; git -C "$wt" checkout -q $b && git -C "$wt" apply $V/seeded/$name/patch.diff || { echo "patch does not apply"; exit 2; }; }
cd $V
for p in "$@"; do
  out=$(VERIF_REPO=$wt VERIF_OUT=/tmp/mt-out${MT_SUFFIX}/$name ./bin/check "$p" --tier quick ${RUNS:+--runs $RUNS} 2>&1); rc=$?
  echo "=== $name $p exit=$rc"
  echo "$out" | grep -v '^KNOWN-FINDING' | cut -c1-600 | tail -${TAIL:-6}
done
