#!/usr/bin/env python3
# regenerates /verif/seeded/RESULTS.md from the meta.json files
import json,glob,os
rows=[]
for d in sorted(glob.glob('/verif/seeded/C*')):
    m=json.load(open(d+'/meta.json')); v=m.get('verif_result',{})
    rows.append('| %s | %s | %s | %s | %s |'%(os.path.basename(d),m.get('round','?'),m.get('needs','').replace('\n',' ').replace('|','/')[:200],v.get('caught_by','').replace('|','/'),v.get('note','').replace('|','/')))
head=open('/verif/seeded/RESULTS.md').read().split('| change |')[0]
open('/verif/seeded/RESULTS.md','w').write(head+'| change | round | needs (from the author) | caught by | history |\n|---|---|---|---|---|\n'+'\n'.join(rows)+'\n')
print(len(rows),'rows')
