#!/usr/bin/env python3
# usage: tools/seeded_note.py <name> <round> "<caught by>" "<note>"   — records what the checks did with a seeded change
import json,sys
name,rnd,caught,note=sys.argv[1:5]
p='/verif/seeded/%s/meta.json'%name
m=json.load(open(p))
m['round']=int(rnd)
import subprocess
m.setdefault('base_commit',subprocess.check_output(['git','-C','/repo','rev-parse','--short','HEAD'],text=True).strip())
m['verif_result']={'caught_by':caught,'note':note}
json.dump(m,open(p,'w'),indent=1,ensure_ascii=False)
