#!/bin/sh
# development tool: every seeded change against the check of the property it targets
cd /verif
for d in $(ls seeded | grep -v RESULTS); do
  p=$(echo $d | cut -c1-3)
  tools/try_mutant_wt.sh $d $p 2>&1 | grep -E "^=== |^check |^VIOLATION|using base" | cut -c1-200
done
