#!/bin/sh
# development tool: every seeded change against the check(s) recorded as catching it (first two property ids in caught_by)
V=${VERIF_DIR:-/verif}
cd $V
for d in $(ls seeded | grep -v RESULTS); do
  ps=$(python3 -c "
import json,re
m=json.load(open('$V/seeded/$d/meta.json')); c=m.get('verif_result',{}).get('caught_by','')
ids=[]
for x in re.findall(r'C\d\d',c):
    if x not in ids: ids.append(x)
print(' '.join(ids[:2]) or '$d'[:3])")
  res=""
  for p in $ps; do
    out=$(TAIL=2 tools/try_mutant_wt.sh $d $p 2>&1 | grep -E "^=== " | sed 's/=== //')
    res="$res [$out]"
    case "$out" in *exit=1*) break;; esac
  done
  echo "$d:$res"
done
