#!/usr/bin/env python3
# Regenerates /verif/MANIFEST.json from the table below (development tool; the
# manifest itself is what is registered).
import json, subprocess
T = "deterministic simulation with fault injection: "
claimed = {
 "C01": ("exploration",
  "Package well-formedness invariant (independent ZIP/XML reader) evaluated at every save event of seeded API histories with hostile strings, both save entry points, document and process restarts and simulator-chosen map-iteration orders. Sampled search: a clean batch is evidence, not proof.",
  "Trusted: archive/zip and encoding/xml (strict) in the oracle; XML 1.0 Char check is explicit. Schema validity is out of scope.",
  T+"seeded histories, restart as crash, map-order seam, invariant at every save event", "§5 C01"),
 "C02": ("exploration",
  "Relationship-graph invariant (unique ids, resolvable targets, correct owner part, typed r:id/r:embed resolution) at every save event of seeded histories, including packages from an independent foreign producer with arbitrary relationship ids and any order of the Relationship elements, extended and restarted; template scenarios in which the template document goes on being edited after it was loaded; tables built on the side (CreateTable), given a picture, and put into the body after a save.",
  "Trusted: the foreign producer and the inspector are simulator code. Duplicate relationships to one target with different ids are legal OPC and not flagged.",
  T+"seeded histories over foreign-producer and own packages, restart as crash, invariant at every save event", "§5 C02"),
 "C05": ("fault_enumeration",
  "For each generated document the write-failure point is enumerated over every byte offset of the output file (RLIMIT_FSIZE enforced by the real kernel against the unmodified Save), plus ENOSPC devices and unwritable targets; exhaustive per listed document, sampled over documents.",
  "Trusted: the kernel's RLIMIT_FSIZE/ENOSPC behaviour as a stand-in for every failing write(2); the independent ZIP reader in /verif/inspect. Not covered: errors surfaced only by close(2)/fsync.",
  T+"per-byte write-fault enumeration", "§5 C05, §3.5"),
 "C07": ("exploration",
  "Multi-client simulation: the same per-document operation lists are executed alone, interleaved on one goroutine, and as goroutines under a seeded baton scheduler in the -race build; every operation result, accessor result and canonical package must equal the solo run, bytes handed out by a save must never change afterwards, and the race log must be empty. Some documents are executed alone in a fresh process as well; in some cases documents of different tasks start from ONE producer file that each task opens for itself. File-system calls, ZIP entry boundaries, lock operations (RWMutex with writer preference, Mutex, Once, WaitGroup), channel receives/sends and preemption points inside library functions are yield points of the scheduler. Sampled over histories and schedules.",
  "Trusted: the Go race detector (it misses a given race in a few percent of executions; replays of race violations are tried three times). The listed process-wide-registry findings are probed by witnesses; the search lane keeps notes and lists to one document per case.",
  T+"seeded multi-task scheduler (futex baton invisible to the race detector), solo/interleaved/concurrent differential, race detector", "§5 C07, §3.3"),
 "C13": ("exploration",
  "Id-closure invariant (style, numbering, note ids used vs defined; API-added styles present) at every save event of seeded histories with intermediate saves, document restarts and process restarts that empty the process-wide registries; six listed known findings are probed by directed witnesses.",
  "Lane A keeps out of the preconditions of the listed known findings (styles part frozen after serialisation, numbering overwritten on opened documents, undefined table-template/TOC style ids); each is re-confirmed by its witness on every run.",
  T+"seeded histories, document/process restart, invariant at every save event", "§5 C13"),
}
extra = {}
try:
    exec(open('/verif/tools/manifest_extra.py').read())
except FileNotFoundError:
    pass
claimed.update(extra)
pure = {
 "C14": "style inheritance resolution is a pure function of (registry, id): no I/O, shared state, lock, clock or map-order dependence for a schedule or fault to vary (DESIGN.md §6)",
 "C19": "Markdown->Word conversion is a pure function of (bytes, options); totality/fidelity over inputs is fuzzing/differential testing, not simulation (DESIGN.md §6)",
 "C20": "Word->Markdown export is a pure function of (document, options) into a private builder; no schedule, fault or shared state (DESIGN.md §6)",
}
allp = ["C%02d" % i for i in range(1, 21)]
m = {
 "version": 1, "setup_cmd": "./setup.sh",
 "hooks": {"guard": "verif",
   "enable": "go build -tags verif (workers are built by bin/check from a scratch copy of /repo's working tree with -tags verif; the copy is additionally rewritten so that map iteration order and sync.RWMutex go through simulator-owned seams)",
   "baseline_off_cmd": "cd /repo && GOFLAGS=-mod=mod go test -json -vet=off -count=1 -timeout 25m ./...",
   "source_commits": ["9b660b7"], "add_only": True},
 "engines": [{"name": "docsim", "path": "/verif", "serves_properties": sorted(claimed),
   "kind_free_text": "deterministic simulation with fault injection: seeded histories over the public API, simulator-owned map order / lock scheduling / restarts / I/O faults, reference models and package invariants as oracles"}],
 "checks": [], "not_applicable": [],
 "notes": "See DESIGN.md §1 for the verdict table and KNOWN_FINDINGS.txt for recorded defects and fixes.",
}
for p in sorted(claimed):
    lvl, text, note, tech, ref = claimed[p]
    m["checks"].append({"property_id": p, "quick_cmd": "./bin/check %s --tier quick" % p, "thorough_cmd": "./bin/check %s --tier thorough" % p,
      "evidence_file": "evidence/%s.json" % p, "replay_cmd_template": "./bin/check %s --replay {path}" % p, "engine": "docsim",
      "level_claimed": {"category": lvl, "text": text, "design_ref": "DESIGN.md " + ref}, "level_note": note, "technique": tech})
for p in allp:
    if p in claimed: continue
    m["not_applicable"].append({"property_id": p, "reason": pure.get(p, "claimed in DESIGN.md but its check is not built yet (work in progress); nothing is asserted about it")})
json.dump(m, open('/verif/MANIFEST.json', 'w'), indent=1)
print("claimed:", " ".join(sorted(claimed)))
