# sourced by every script: offline Go settings
export GOFLAGS=-mod=mod GOPROXY=off GOSUMDB=off GOTOOLCHAIN=local CGO_ENABLED=1
