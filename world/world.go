// Package world applies operation values to the real library: it is the
// "public API" side of the simulation. One World is the state of one run:
// documents (by slot), handles into them, the simulated disk, and observers
// (reference models, invariants) that are told about every operation and
// every save event.
package world

import (
	"bytes"
	"fmt"
	"io"
	"os"
	"path/filepath"
	"runtime/debug"
	"strings"
	"syscall"

	"github.com/zerx-lab/wordZero/pkg/document"
	"github.com/zerx-lab/wordZero/pkg/markdown"
	"github.com/zerx-lab/wordZero/pkg/verifrt"

	"verif/foreign"
	"verif/sim"
)

// Doc is one document slot of the world.
type Doc struct {
	Slot   int
	D      *document.Document
	Paras  []*document.Paragraph // handles returned by append operations
	Tables []*document.Table
	// Detached holds tables made with CreateTable that are not in the body yet
	Detached []*document.Table
	Images   []*document.ImageInfo
	Saves    int
	Last     []byte // bytes of the most recent save
	Dead     bool   // a previous op on this document panicked or restart failed
	// Foreign is set when the document was opened from a package written by
	// the foreign producer (Base = those bytes).
	Foreign *foreign.Result
	Base    []byte
	// StablePath, when set, is the one file this document is saved to and opened from for the whole run (the way a program
	// that keeps re-saving report.docx uses the library); the file stays on disk between the calls. Otherwise every save
	// and every open goes through a fresh file name that is removed at once.
	StablePath string
}

// Obs is what one operation returned, in canonical text form.
type Obs struct {
	Res     string // "ok", "err", "true", "false", "nil", a count, …
	Err     error
	Panic   string // panic signature, "" if none
	Skipped bool   // the op had no valid target (e.g. no table yet)
	Bytes   []byte // for save ops
}

// Observer is told about everything that happens; oracles implement it.
type Observer interface {
	// After is called after every operation.
	After(w *World, op sim.Op, ds *Doc, o *Obs)
	// OnSave is called for every successful serialisation of a document.
	OnSave(w *World, ds *Doc, b []byte)
	// OnRestart is called after a document came back from its bytes.
	OnRestart(w *World, ds *Doc)
}

// World is the state of one run.
type World struct {
	Docs  []*Doc
	Obsv  []Observer
	Stats *sim.Stats
	Log   *sim.Log
	Tmp   string
	Viol  []sim.Violation
	Extra map[string]any // property-specific state
	// ShortReads makes every restart through memory use a reader that
	// returns 1..k bytes per Read (legal, must not change any result).
	ShortReadRng *sim.Rand
	FilePrefix   string // prefix of the file names this world saves under (tasks that share a directory)
	Stable       bool   // documents get a StablePath
	nfile        int
}

func New(stats *sim.Stats, log *sim.Log, tmp string) *World {
	return &World{Stats: stats, Log: log, Tmp: tmp, Extra: map[string]any{}}
}

// Fail records a violation.
func (w *World) Fail(clause, sig, detail string) {
	w.Viol = append(w.Viol, sim.Violation{Clause: clause, Sig: sig, Detail: detail})
}

func (w *World) Failed() bool { return len(w.Viol) > 0 }

// Doc returns the document in slot i, creating empty documents as needed.
func (w *World) Doc(i int) *Doc {
	if i < 0 {
		i = 0
	}
	for len(w.Docs) <= i {
		d := &Doc{Slot: len(w.Docs), D: document.New()}
		if w.Stable {
			d.StablePath = filepath.Join(w.Tmp, fmt.Sprintf("%sdoc%d.docx", w.FilePrefix, d.Slot))
		}
		w.Docs = append(w.Docs, d)
	}
	return w.Docs[i]
}

func pickIdx(i, n int) int {
	if n == 0 {
		return -1
	}
	i %= n
	if i < 0 {
		i += n
	}
	return i
}

func (d *Doc) para(i int) *document.Paragraph {
	if j := pickIdx(i, len(d.Paras)); j >= 0 {
		return d.Paras[j]
	}
	return nil
}

func (d *Doc) table(i int) *document.Table {
	if j := pickIdx(i, len(d.Tables)); j >= 0 {
		return d.Tables[j]
	}
	return nil
}

func (d *Doc) image(i int) *document.ImageInfo {
	if j := pickIdx(i, len(d.Images)); j >= 0 {
		return d.Images[j]
	}
	return nil
}

func errRes(err error) string {
	if err != nil {
		return "err"
	}
	return "ok"
}

// Apply executes one operation. Panics of the library are caught and become
// part of the observation.
func (w *World) Apply(op sim.Op) *Obs {
	ds := w.Doc(op.D)
	o := &Obs{}
	w.Stats.Op(op.K)
	func() {
		defer func() {
			if r := recover(); r != nil {
				o.Panic = panicSig(r, debug.Stack())
				o.Res = "panic"
			}
		}()
		if ds.Dead && op.K != "new" {
			o.Skipped = true
			o.Res = "dead"
			return
		}
		w.apply(ds, op, o)
	}()
	if o.Err != nil && o.Res == "" {
		o.Res = "err"
	}
	if o.Res == "" {
		o.Res = "ok"
	}
	w.Log.Event("op %s d=%d -> %s %s", op.K, op.D, o.Res, o.Panic)
	for _, ob := range w.Obsv {
		ob.After(w, op, ds, o)
	}
	return o
}

// PanicSigFn is set by package props (avoids an import cycle).
var PanicSigFn func(r any, stack []byte) string

func panicSig(r any, stack []byte) string {
	if PanicSigFn != nil {
		return PanicSigFn(r, stack)
	}
	return fmt.Sprint(r)
}

func (w *World) apply(ds *Doc, op sim.Op, o *Obs) {
	k := op.K
	switch {
	case k == "new":
		ds.D = document.New()
		ds.Paras, ds.Tables, ds.Images, ds.Dead = nil, nil, nil, false
	case k == "save":
		w.opSave(ds, op, o)
	case k == "savefail": // I[0] = index of the file-system call of Save that fails (0 = the first); needs the instrumented copy
		w.opSaveFail(ds, op, o)
	case k == "restart":
		w.opRestart(ds, op, o)
	case k == "prestart":
		w.opProcessRestart(op, o)
	case k == "foreign": // I[0]=seed, I[1]=feature flags, I[2]=open path
		res := foreign.Build(uint64(op.Int(0)), op.Int(1))
		src := ""
		if w.Stable {
			src = filepath.Join(w.Tmp, fmt.Sprintf("%ssource%d.docx", w.FilePrefix, ds.Slot)) // the producer's file: opened, never written by the library
		}
		via := op.Int(2)
		if op.Int(3) == 1 {
			// a file several documents - of this world and of the other tasks' worlds - are opened from (never written by the library,
			// written by the harness only when it is not there yet): documents opened from one file are still independent documents
			src, via = filepath.Join(filepath.Dir(w.Tmp), fmt.Sprintf("common-%d-%d.docx", op.Int(0), op.Int(1))), 2
			w.Stats.Probe("opened_from_a_file_other_documents_open_too")
		}
		d2, err := w.OpenBytesAt(res.Bytes, via, src)
		o.Err = err
		if err != nil {
			ds.Dead = true
			o.Res = "open-err"
			return
		}
		w.Extra[fmt.Sprintf("foreign-src:%d", ds.Slot)] = []any{res, via, src}
		ds.D, ds.Foreign, ds.Base, ds.Dead = d2, res, res.Bytes, false
		ds.Paras, ds.Tables, ds.Images = nil, nil, nil
		if d2.Body != nil {
			ds.Paras = append(ds.Paras, d2.Body.GetParagraphs()...)
			ds.Tables = append(ds.Tables, d2.Body.GetTables()...)
		}
		w.Stats.Probe("foreign_opened")
	case k == "foreign.again": // I[0]=slot whose producer file is opened once more, the same way, into this slot
		v, _ := w.Extra[fmt.Sprintf("foreign-src:%d", op.Int(0))].([]any)
		if v == nil {
			o.Skipped, o.Res = true, "skip"
			return
		}
		res, via, src := v[0].(*foreign.Result), v[1].(int), v[2].(string)
		d2, err := w.OpenBytesAt(res.Bytes, via, src)
		o.Err = err
		if err != nil {
			ds.Dead = true
			o.Res = "open-err"
			return
		}
		ds.D, ds.Foreign, ds.Base, ds.Dead = d2, res, res.Bytes, false
		ds.Paras, ds.Tables, ds.Images = nil, nil, nil
		if d2.Body != nil {
			ds.Paras = append(ds.Paras, d2.Body.GetParagraphs()...)
			ds.Tables = append(ds.Tables, d2.Body.GetTables()...)
		}
		w.Stats.Probe("foreign_source_opened_again")
	case k == "tpl.render":
		w.opTplRender(ds, op, o)
	case k == "md": // S[0]=markdown source, I[0]=option bits: the slot's document becomes the conversion result
		opts := markdown.DefaultOptions()
		opts.EnableGFM, opts.EnableTables, opts.EnableTaskList, opts.EnableMath = op.Int(0)&1 != 0, op.Int(0)&2 != 0, op.Int(0)&4 != 0, op.Int(0)&8 != 0
		opts.GenerateTOC = op.Int(0)&16 != 0
		// one Converter per world, as a program that converts several sources (or BatchConvert) uses it
		conv, _ := w.Extra["md-converter"].(*markdown.Converter)
		if conv == nil {
			conv = markdown.NewConverter(markdown.DefaultOptions())
			w.Extra["md-converter"] = conv
		}
		d2, err := conv.ConvertString(op.Str(0), opts)
		o.Err = err
		if err != nil || d2 == nil {
			return
		}
		ds.D, ds.Dead, ds.Foreign, ds.Base = d2, false, nil, nil
		ds.Paras, ds.Tables, ds.Images = nil, nil, nil
		if d2.Body != nil {
			ds.Paras = append(ds.Paras, d2.Body.GetParagraphs()...)
			ds.Tables = append(ds.Tables, d2.Body.GetTables()...)
		}
		w.Stats.Probe("markdown_conversions")
	case k == "mdfile":
		// S[0]=markdown source, I[0]=option bits or -1 for nil options: the source is written to a file of its own directory
		// (relative to the worker's working directory, so that paths that end up in the document read the same in every
		// phase and process), converted with ConvertFile by the world's one Converter, and the result is opened.
		n, _ := w.Extra[fmt.Sprintf("mdfile-n%d", ds.Slot)].(int)
		w.Extra[fmt.Sprintf("mdfile-n%d", ds.Slot)] = n + 1
		dir := filepath.Join("md", fmt.Sprintf("d%d_%d", ds.Slot, n))
		if err := os.MkdirAll(dir, 0o755); err != nil {
			panic("world: mdfile: " + err.Error())
		}
		src, out := filepath.Join(dir, "src.md"), filepath.Join(dir, "out.docx")
		if op.Int(1) == 1 {
			out = dir // the output path is an existing directory: the Save inside ConvertFile fails
			w.Stats.Faults["W-target(ConvertFile)"]++
		}
		if err := os.WriteFile(src, []byte(op.Str(0)), 0o644); err != nil {
			panic("world: mdfile: " + err.Error())
		}
		var opts *markdown.ConvertOptions
		if op.Int(0) >= 0 {
			opts = markdown.DefaultOptions()
			opts.EnableGFM, opts.EnableTables, opts.EnableTaskList, opts.EnableMath = op.Int(0)&1 != 0, op.Int(0)&2 != 0, op.Int(0)&4 != 0, op.Int(0)&8 != 0
		}
		conv, _ := w.Extra["md-converter"].(*markdown.Converter)
		if conv == nil {
			conv = markdown.NewConverter(markdown.DefaultOptions())
			w.Extra["md-converter"] = conv
		}
		o.Err = conv.ConvertFile(src, out, opts)
		if o.Err != nil {
			return
		}
		d2, err := document.Open(out)
		os.Remove(out)
		o.Err = err
		if err != nil || d2 == nil {
			return
		}
		ds.D, ds.Dead, ds.Foreign, ds.Base = d2, false, nil, nil
		ds.Paras, ds.Tables, ds.Images = nil, nil, nil
		if d2.Body != nil {
			ds.Paras = append(ds.Paras, d2.Body.GetParagraphs()...)
			ds.Tables = append(ds.Tables, d2.Body.GetTables()...)
		}
		w.Stats.Probe("markdown_file_conversions")
	case strings.HasPrefix(k, "t."):
		w.applyTable(ds, op, o)
	case strings.HasPrefix(k, "p."):
		w.applyPara(ds, op, o)
	case strings.HasPrefix(k, "pg."):
		w.applyPage(ds, op, o)
	default:
		if !w.applyBody(ds, op, o) && !w.applyMisc(ds, op, o) {
			panic("world: unknown op " + k)
		}
	}
}

// ---- persistence -------------------------------------------------------------

func (w *World) newPath(ext string) string {
	w.nfile++
	return filepath.Join(w.Tmp, fmt.Sprintf("%sf%d%s", w.FilePrefix, w.nfile, ext))
}

// Serialize saves through one of the two entry points and returns the bytes.
func (w *World) Serialize(ds *Doc, via int) ([]byte, error) {
	if via == 1 {
		p := ds.StablePath
		if p == "" {
			p = w.newPath(".docx")
			defer os.Remove(p)
		} else {
			w.Stats.Probe("saves_over_the_documents_own_file")
		}
		if err := ds.D.Save(p); err != nil {
			return nil, err
		}
		return os.ReadFile(p)
	}
	return ds.D.ToBytes()
}

func (w *World) opSave(ds *Doc, op sim.Op, o *Obs) {
	b, err := w.Serialize(ds, op.Int(0))
	o.Err = err
	if err != nil {
		return
	}
	o.Bytes = b
	ds.Saves++
	ds.Last = b
	w.Stats.Probe("save_events")
	for _, ob := range w.Obsv {
		ob.OnSave(w, ds, b)
	}
}

// opSaveFail: Save(path) with the n-th file-system call failing (injected at
// the file-system seam of the instrumented copy). Save must return an error;
// the document must be as usable afterwards as if the call had not been made.
func (w *World) opSaveFail(ds *Doc, op sim.Op, o *Obs) {
	p := w.newPath(".docx")
	n := int64(op.Int(0))
	var seen int64
	fired := false
	prevHook, prevFault := verifrt.IOHook, verifrt.IOFault
	verifrt.IOFault = func(kind, path string) error {
		defer func() { seen++ }()
		if seen == n {
			fired = true
			return syscall.EACCES
		}
		return nil
	}
	err := ds.D.Save(p)
	verifrt.IOHook, verifrt.IOFault = prevHook, prevFault
	os.Remove(p)
	if !fired {
		o.Res = "no-fault" // the build has no file-system seam, or Save made fewer calls
		if err == nil {
			w.Stats.Probe("savefail_not_fired")
		}
		return
	}
	w.Stats.Fault("IO-call-fails")
	if err == nil {
		o.Res = "nil-despite-failed-call"
		return
	}
	o.Res = "failed-as-it-must"
}

// shortReader returns 1..k bytes per Read.
type shortReader struct {
	b   []byte
	rng *sim.Rand
	n   *int64
}

func (s *shortReader) Read(p []byte) (int, error) {
	if len(s.b) == 0 {
		return 0, io.EOF
	}
	k := 1 + s.rng.Intn(4096)
	if k > len(p) {
		k = len(p)
	}
	if k > len(s.b) {
		k = len(s.b)
	}
	copy(p, s.b[:k])
	s.b = s.b[k:]
	*s.n++
	return k, nil
}
func (s *shortReader) Close() error { return nil }

// OpenBytes opens a package through one of the open paths: 0 memory (whole
// reads), 1 memory with short reads, 2 from a file.
func (w *World) OpenBytes(b []byte, via int) (*document.Document, error) {
	return w.OpenBytesAt(b, via, "")
}

// OpenBytesAt is OpenBytes with the file to use for the path-based way ("" = a fresh name, removed after the call; otherwise
// the bytes are put there - they are what the file holds - and the file stays).
func (w *World) OpenBytesAt(b []byte, via int, path string) (*document.Document, error) {
	switch via {
	case 1:
		var n int64
		rng := w.ShortReadRng
		if rng == nil {
			rng = sim.NewRand(uint64(len(b)))
		}
		d, err := document.OpenFromMemory(&shortReader{b: b, rng: rng, n: &n})
		w.Stats.Faults["R-short"] += n
		return d, err
	case 2:
		p := path
		if p == "" {
			p = w.newPath(".docx")
			defer os.Remove(p)
		} else {
			w.Stats.Probe("opens_of_the_documents_own_file")
		}
		// a file that already holds these bytes is left alone (its modification time is part of what the file system shows)
		if have, err := os.ReadFile(p); path == "" || err != nil || !bytes.Equal(have, b) {
			if err := os.WriteFile(p, b, 0o644); err != nil {
				return nil, err
			}
		}
		return document.Open(p)
	}
	return document.OpenFromMemory(io.NopCloser(bytes.NewReader(b)))
}

// opRestart: save, drop the object and every handle, open again.
// I[0] = save path (0 bytes / 1 file), I[1] = open path (0/1/2).
func (w *World) opRestart(ds *Doc, op sim.Op, o *Obs) {
	b, err := w.Serialize(ds, op.Int(0))
	if err != nil {
		o.Err = err
		o.Res = "save-err"
		return
	}
	ds.Saves++
	ds.Last = b
	for _, ob := range w.Obsv {
		ob.OnSave(w, ds, b)
	}
	d2, err := w.OpenBytesAt(b, op.Int(1), ds.StablePath)
	if err != nil {
		o.Err = err
		o.Res = "open-err"
		ds.Dead = true
		return
	}
	ds.D = d2
	ds.Paras = nil
	ds.Tables = nil
	ds.Images = nil
	if d2.Body != nil {
		ds.Paras = append(ds.Paras, d2.Body.GetParagraphs()...)
		ds.Tables = append(ds.Tables, d2.Body.GetTables()...)
	}
	w.Stats.Probe("restart_doc")
	for _, ob := range w.Obsv {
		ob.OnRestart(w, ds)
	}
}

// opProcessRestart: save every document, drop everything, reset the
// process-wide registries (what a fresh process has), open them all again.
func (w *World) opProcessRestart(op sim.Op, o *Obs) {
	type saved struct {
		ds *Doc
		b  []byte
	}
	var all []saved
	for _, ds := range w.Docs {
		if ds.Dead {
			continue
		}
		b, err := w.Serialize(ds, op.Int(0))
		if err != nil {
			ds.Dead = true
			continue
		}
		ds.Saves++
		ds.Last = b
		for _, ob := range w.Obsv {
			ob.OnSave(w, ds, b)
		}
		all = append(all, saved{ds, b})
	}
	document.VerifResetProcessState()
	w.Stats.Probe("restart_process")
	for _, s := range all {
		d2, err := w.OpenBytes(s.b, op.Int(1))
		if err != nil {
			s.ds.Dead = true
			o.Res = "open-err"
			o.Err = err
			continue
		}
		s.ds.D = d2
		s.ds.Paras, s.ds.Tables, s.ds.Images = nil, nil, nil
		if d2.Body != nil {
			s.ds.Paras = append(s.ds.Paras, d2.Body.GetParagraphs()...)
			s.ds.Tables = append(s.ds.Tables, d2.Body.GetTables()...)
		}
		for _, ob := range w.Obsv {
			ob.OnRestart(w, s.ds)
		}
	}
}

// Run applies a list of operations, stopping at the first violation.
func (w *World) Run(ops []sim.Op) {
	for _, op := range ops {
		w.Apply(op)
		if w.Failed() {
			return
		}
	}
}
