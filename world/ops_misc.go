package world

import (
	"bytes"
	"encoding/xml"
	"fmt"
	"github.com/zerx-lab/wordZero/pkg/markdown"
	"image"
	"image/color"
	"image/gif"
	"image/jpeg"
	"image/png"
	"os"
	"path/filepath"
	"regexp"
	"sort"
	"strings"

	"github.com/zerx-lab/wordZero/pkg/document"
	"github.com/zerx-lab/wordZero/pkg/style"

	"verif/sim"
)

// MakeImage encodes a w×h picture whose pixels are a function of seed, so
// that the bytes identify the operation that added them.
func MakeImage(format string, w, h int, seed uint64) []byte {
	if w < 1 {
		w = 1
	}
	if h < 1 {
		h = 1
	}
	r := sim.NewRand(seed ^ 0xabcdef)
	var buf bytes.Buffer
	switch format {
	case "gif":
		pal := color.Palette{}
		for i := 0; i < 16; i++ {
			pal = append(pal, color.RGBA{uint8(r.Intn(256)), uint8(r.Intn(256)), uint8(r.Intn(256)), 255})
		}
		img := image.NewPaletted(image.Rect(0, 0, w, h), pal)
		for i := range img.Pix {
			img.Pix[i] = uint8(r.Intn(16))
		}
		_ = gif.Encode(&buf, img, nil)
	default:
		img := image.NewRGBA(image.Rect(0, 0, w, h))
		for i := 0; i < len(img.Pix); i += 4 {
			img.Pix[i], img.Pix[i+1], img.Pix[i+2], img.Pix[i+3] = uint8(r.Intn(256)), uint8(r.Intn(256)), uint8(r.Intn(256)), 255
		}
		if format == "jpeg" {
			_ = jpeg.Encode(&buf, img, &jpeg.Options{Quality: 90})
		} else {
			_ = png.Encode(&buf, img)
		}
	}
	return buf.Bytes()
}

// ImageConfigOf decodes an image config: I[ib]=size mode (0 none, 1 w+h,
// 2 w only keep aspect, 3 h only keep aspect, 4 w only no aspect), I[ib+1]=position,
// I[ib+2]=wrap, I[ib+3]=alignment; F[fb..fb+3]=wmm,hmm,offx,offy; S[sb], S[sb+1]=alt,title.
func ImageConfigOf(op sim.Op, ib, fb, sb int) *document.ImageConfig {
	if op.Int(ib) == 9 {
		return nil
	}
	c := &document.ImageConfig{AltText: op.Str(sb), Title: op.Str(sb + 1), OffsetX: op.Flt(fb + 2), OffsetY: op.Flt(fb + 3)}
	switch op.Int(ib) {
	case 1:
		c.Size = &document.ImageSize{Width: op.Flt(fb), Height: op.Flt(fb + 1)}
	case 2:
		c.Size = &document.ImageSize{Width: op.Flt(fb), KeepAspectRatio: true}
	case 3:
		c.Size = &document.ImageSize{Height: op.Flt(fb + 1), KeepAspectRatio: true}
	case 4:
		c.Size = &document.ImageSize{Width: op.Flt(fb)}
	}
	c.Position = []document.ImagePosition{"", document.ImagePositionInline, document.ImagePositionFloatLeft, document.ImagePositionFloatRight}[op.Int(ib+1)&3]
	c.WrapText = []document.ImageWrapText{"", document.ImageWrapNone, document.ImageWrapSquare, document.ImageWrapTight, document.ImageWrapTopAndBottom}[op.Int(ib+2)%5]
	c.Alignment = []document.AlignmentType{"", document.AlignLeft, document.AlignCenter, document.AlignRight}[op.Int(ib+3)&3]
	return c
}

var fmtNames = []string{"png", "jpeg", "gif"}

// ImageOf returns (bytes, format, w, h) of the picture an "img" op describes:
// I[0]=format, I[1]=w, I[2]=h, I[3]=pixel seed.
func ImageOf(op sim.Op) ([]byte, document.ImageFormat, int, int) {
	f := fmtNames[pickIdx(op.Int(0), 3)]
	w, h := op.Int(1), op.Int(2)
	return MakeImage(f, w, h, uint64(op.Int(3))), document.ImageFormat(f), w, h
}

func hfType(s string) document.HeaderFooterType { return document.HeaderFooterType(s) }

func (w *World) applyMisc(ds *Doc, op sim.Op, o *Obs) bool {
	d := ds.D
	switch op.K {
	// ---- images: I[0..3] picture, I[4..7] config, F[0..3], S[0]=file name, S[1..2]=alt,title
	case "img":
		data, f, pw, ph := ImageOf(op)
		cfg := ImageConfigOf(op, 4, 0, 1)
		if op.Flt(4) == 1 && cfg != nil && cfg.Size != nil {
			// the caller keeps ONE size object per distinct requested size and puts it into the configuration of every picture that
			// wants that size (in this document or another one of this world): the library must treat it as read-only input
			key := fmt.Sprintf("imgsize:%d|%v|%v", op.Int(4), op.Flt(0), op.Flt(1))
			if sz, ok := w.Extra[key].(*document.ImageSize); ok {
				cfg.Size = sz
				w.Stats.Probe("image_size_object_reused")
			} else {
				w.Extra[key] = cfg.Size
			}
		}
		info, err := d.AddImageFromData(data, op.Str(0), f, pw, ph, cfg)
		o.Err = err
		if err == nil {
			ds.Images = append(ds.Images, info)
		}
	case "imgfile":
		data, _, _, _ := ImageOf(op)
		dir := filepath.Join(w.Tmp, "img")
		_ = os.MkdirAll(dir, 0o755)
		name := op.Str(0)
		if name == "" {
			name = "x"
		}
		p := filepath.Join(dir, filepath.Base(name))
		if op.Int(8) == 1 { // truncated file
			data = data[:len(data)/3]
		}
		if op.Int(8) != 2 { // 2 = missing file
			if err := os.WriteFile(p, data, 0o644); err != nil {
				o.Skipped = true
				o.Res = "skip"
				return true
			}
			defer os.Remove(p)
		}
		info, err := d.AddImageFromFile(p, ImageConfigOf(op, 4, 0, 1))
		o.Err = err
		if err == nil {
			ds.Images = append(ds.Images, info)
		}
	case "cellimg": // I[8]=table (1000+k: the k-th table nested in a cell of one of the document's tables), I[9]=row, I[10]=col
		t := ds.table(op.Int(8))
		if op.Int(8) >= 2000 { // a table that is not in the body yet
			t = nil
			if len(ds.Detached) > 0 {
				t = ds.Detached[(op.Int(8)-2000)%len(ds.Detached)]
			}
		} else if op.Int(8) >= 1000 {
			t = nil
			var nested []*document.Table
			for _, top := range ds.Tables {
				if top == nil {
					continue
				}
				for ri := range top.Rows {
					for ci := range top.Rows[ri].Cells {
						for k := range top.Rows[ri].Cells[ci].Tables {
							nested = append(nested, &top.Rows[ri].Cells[ci].Tables[k])
						}
					}
				}
			}
			if len(nested) > 0 {
				t = nested[(op.Int(8)-1000)%len(nested)]
				w.Stats.Probe("picture_in_nested_table")
			}
		}
		if t == nil {
			o.Skipped, o.Res = true, "skip"
			return true
		}
		data, f, _, _ := ImageOf(op)
		cfg := &document.CellImageConfig{Data: data, Format: f, AltText: op.Str(1), Title: op.Str(2)}
		switch op.Int(4) {
		case 1:
			cfg.Width, cfg.Height = op.Flt(0), op.Flt(1)
		case 2:
			cfg.Width, cfg.KeepAspectRatio = op.Flt(0), true
		case 3:
			cfg.Height, cfg.KeepAspectRatio = op.Flt(1), true
		}
		info, err := d.AddCellImage(t, op.Int(9), op.Int(10), cfg)
		o.Err = err
		if err == nil {
			ds.Images = append(ds.Images, info)
		}
	case "img.resize":
		if im := ds.image(op.Int(0)); im != nil {
			o.Err = d.ResizeImage(im, &document.ImageSize{Width: op.Flt(0), Height: op.Flt(1), KeepAspectRatio: op.Int(1) != 0})
		} else {
			o.Skipped, o.Res = true, "skip"
		}
	case "img.alt":
		if im := ds.image(op.Int(0)); im != nil {
			o.Err = d.SetImageAltText(im, op.Str(0))
		} else {
			o.Skipped, o.Res = true, "skip"
		}
	case "img.title":
		if im := ds.image(op.Int(0)); im != nil {
			o.Err = d.SetImageTitle(im, op.Str(0))
		} else {
			o.Skipped, o.Res = true, "skip"
		}
	case "img.pos": // I[0]=image I[1]=position F[0..1]=offsets
		if im := ds.image(op.Int(0)); im != nil {
			o.Err = d.SetImagePosition(im, []document.ImagePosition{document.ImagePositionInline, document.ImagePositionFloatLeft, document.ImagePositionFloatRight}[pickIdx(op.Int(1), 3)], op.Flt(0), op.Flt(1))
		} else {
			o.Skipped, o.Res = true, "skip"
		}
	case "img.wrap":
		if im := ds.image(op.Int(0)); im != nil {
			o.Err = d.SetImageWrapText(im, []document.ImageWrapText{document.ImageWrapNone, document.ImageWrapSquare, document.ImageWrapTight, document.ImageWrapTopAndBottom}[pickIdx(op.Int(1), 4)])
		} else {
			o.Skipped, o.Res = true, "skip"
		}
	case "mllist": // per item: S[3i]=text S[3i+1]=type S[3i+2]=bullet, I[2i]=level I[2i+1]=start
		var items []document.ListItem
		for i := 0; 3*i+2 < len(op.S); i++ {
			items = append(items, document.ListItem{Text: op.Str(3 * i), Type: document.ListType(op.Str(3*i + 1)), BulletSymbol: document.BulletType(op.Str(3*i + 2)), Level: op.Int(2 * i), StartNumber: op.Int(2*i + 1)})
		}
		before := len(d.Body.GetParagraphs())
		o.Err = d.CreateMultiLevelList(items)
		if ps := d.Body.GetParagraphs(); len(ps) > before {
			ds.Paras = append(ds.Paras, ps[before:]...)
		}
	case "fnrun": // I[0]=paragraph S[0]=note text: a footnote attached to the last run of an existing paragraph
		p := ds.para(op.Int(0))
		if p == nil || len(p.Runs) == 0 {
			o.Skipped, o.Res = true, "skip"
			return true
		}
		o.Err = d.AddFootnoteToRun(&p.Runs[len(p.Runs)-1], op.Str(0))
	case "toc.style": // I[0]=level, then a text format
		o.Err = d.SetTOCStyle(op.Int(0), TextFormatOf(op, 1, 0))
	case "img.align":
		if im := ds.image(op.Int(0)); im != nil {
			o.Err = d.SetImageAlignment(im, document.AlignmentType(op.Str(0)))
		} else {
			o.Skipped, o.Res = true, "skip"
		}

	// ---- headers / footers: S[0]=kind, S[1]=text
	case "hdr":
		o.Err = d.AddHeader(hfType(op.Str(0)), op.Str(1))
	case "ftr":
		o.Err = d.AddFooter(hfType(op.Str(0)), op.Str(1))
	case "hdrpn":
		o.Err = d.AddHeaderWithPageNumber(hfType(op.Str(0)), op.Str(1), op.Int(0) != 0)
	case "ftrpn":
		o.Err = d.AddFooterWithPageNumber(hfType(op.Str(0)), op.Str(1), op.Int(0) != 0)
	case "fhdr", "fftr": // S[2]=align, S[3..5] colour,font,highlight, I[0..4] format, I[5]=1 nil format, I[6]=1 nil config
		var cfg *document.HeaderFooterConfig
		if op.Int(6) == 0 {
			cfg = &document.HeaderFooterConfig{Text: op.Str(1), Alignment: document.AlignmentType(op.Str(2))}
			if op.Int(5) == 0 {
				cfg.Format = TextFormatOf(op, 0, 3)
			}
		}
		if op.K == "fhdr" {
			o.Err = d.AddFormattedHeader(hfType(op.Str(0)), cfg)
		} else {
			o.Err = d.AddFormattedFooter(hfType(op.Str(0)), cfg)
		}
	case "difffirst":
		d.SetDifferentFirstPage(op.Int(0) != 0)

	// ---- lists: S[0]=text S[1]=type S[2]=bullet I[0]=start I[1]=level I[2]=1 nil config
	case "li":
		var cfg *document.ListConfig
		if op.Int(2) == 0 {
			cfg = &document.ListConfig{Type: document.ListType(op.Str(1)), BulletSymbol: document.BulletType(op.Str(2)), StartNumber: op.Int(0), IndentLevel: op.Int(1)}
		}
		if p := d.AddListItem(op.Str(0), cfg); p != nil {
			ds.Paras = append(ds.Paras, p)
		} else {
			o.Res = "nil"
		}
	case "bullet":
		if p := d.AddBulletList(op.Str(0), op.Int(1), document.BulletType(op.Str(2))); p != nil {
			ds.Paras = append(ds.Paras, p)
		} else {
			o.Res = "nil"
		}
	case "numbered":
		if p := d.AddNumberedList(op.Str(0), op.Int(1), document.ListType(op.Str(1))); p != nil {
			ds.Paras = append(ds.Paras, p)
		} else {
			o.Res = "nil"
		}
	case "restartnum":
		d.RestartNumbering(op.Str(0))

	// ---- notes
	case "fn":
		o.Err = d.AddFootnote(op.Str(0), op.Str(1))
	case "en":
		o.Err = d.AddEndnote(op.Str(0), op.Str(1))
	case "rmfn":
		o.Err = d.RemoveFootnote(op.Str(0))
	case "rmen":
		o.Err = d.RemoveEndnote(op.Str(0))
	case "fncfg":
		o.Err = d.SetFootnoteConfig(&document.FootnoteConfig{
			NumberFormat: document.FootnoteNumberFormat(op.Str(0)), StartNumber: op.Int(0),
			RestartEach: document.FootnoteRestart(op.Str(1)), Position: document.FootnotePosition(op.Str(2)),
		})

	// ---- TOC: S[0]=title I[0]=max level I[1]=flags
	case "toc.gen", "toc.auto":
		cfg := &document.TOCConfig{Title: op.Str(0), MaxLevel: op.Int(0), ShowPageNum: op.Int(1)&1 != 0, RightAlign: op.Int(1)&2 != 0, UseHyperlink: op.Int(1)&4 != 0, DotLeader: op.Int(1)&8 != 0}
		if op.K == "toc.gen" {
			o.Err = d.GenerateTOC(cfg)
		} else {
			o.Err = d.AutoGenerateTOC(cfg)
		}
	case "toc.update":
		o.Err = d.UpdateTOC()

	// ---- properties: S[0]=field S[1]=value
	case "prop":
		v := op.Str(1)
		switch op.Str(0) {
		case "title":
			o.Err = d.SetTitle(v)
		case "author":
			o.Err = d.SetAuthor(v)
		case "subject":
			o.Err = d.SetSubject(v)
		case "keywords":
			o.Err = d.SetKeywords(v)
		case "description":
			o.Err = d.SetDescription(v)
		case "category":
			o.Err = d.SetCategory(v)
		case "stats":
			o.Err = d.UpdateStatistics()
		default:
			o.Err = d.SetDocumentProperties(&document.DocumentProperties{Title: v, Subject: v, Creator: v, Keywords: v, Description: v, Language: "en", Category: v, Version: "1", Revision: "2"})
		}
	case "math":
		d.AddMathFormula(op.Str(0), op.Int(0) != 0)

	// ---- styles: S[0]=id S[1]=name S[2]=type S[3]=basedOn
	case "style.add":
		st := d.GetStyleManager().CreateCustomStyle(op.Str(0), op.Str(1), style.StyleType(op.Str(2)), op.Str(3))
		if st == nil {
			o.Res = "nil"
		}
	case "style.quick": // I[0]=bold I[1]=size I[2]=has paragraph config
		cfg := style.QuickStyleConfig{ID: op.Str(0), Name: op.Str(1), Type: style.StyleType(op.Str(2)), BasedOn: op.Str(3),
			RunConfig: &style.QuickRunConfig{Bold: op.Int(0) != 0, FontSize: op.Int(1), FontColor: "112233"}}
		if op.Int(2) != 0 {
			cfg.ParagraphConfig = &style.QuickParagraphConfig{Alignment: "center", SpaceBefore: 6, LineSpacing: 1.5}
		}
		_, o.Err = style.NewQuickStyleAPI(d.GetStyleManager()).CreateQuickStyle(cfg)
	case "style.rm":
		d.GetStyleManager().RemoveStyle(op.Str(0))
	case "style.edit": // S[0]=id S[1]=value I[0]=attribute: change a registered style in place through the public structs
		st := d.GetStyleManager().GetStyle(op.Str(0))
		if st == nil {
			o.Res = "nil"
			return true
		}
		val := op.Str(1)
		switch op.Int(0) % 6 {
		case 0:
			if st.RunPr == nil {
				st.RunPr = &style.RunProperties{}
			}
			if st.RunPr.Color == nil {
				st.RunPr.Color = &style.Color{Val: val}
			} else {
				st.RunPr.Color.Val = val
			}
		case 1:
			if st.RunPr == nil {
				st.RunPr = &style.RunProperties{}
			}
			if st.RunPr.Bold == nil {
				st.RunPr.Bold = &style.Bold{}
			} else {
				st.RunPr.Bold = nil
			}
		case 2:
			if st.RunPr == nil {
				st.RunPr = &style.RunProperties{}
			}
			if st.RunPr.FontSize == nil {
				st.RunPr.FontSize = &style.FontSize{Val: itoa(10 + len(val))}
			} else {
				st.RunPr.FontSize.Val = itoa(10 + len(val))
			}
		case 3:
			if st.ParagraphPr == nil {
				st.ParagraphPr = &style.ParagraphProperties{}
			}
			if st.ParagraphPr.Spacing == nil {
				st.ParagraphPr.Spacing = &style.Spacing{Before: itoa(20 * len(val))}
			} else {
				st.ParagraphPr.Spacing.Before = itoa(20 * len(val))
			}
		case 4:
			if st.Name == nil {
				st.Name = &style.StyleName{Val: val}
			} else {
				st.Name.Val = val
			}
		default:
			if st.ParagraphPr == nil {
				st.ParagraphPr = &style.ParagraphProperties{}
			}
			if st.ParagraphPr.Justification == nil {
				st.ParagraphPr.Justification = &style.Justification{Val: "center"}
			} else {
				st.ParagraphPr.Justification.Val = "right"
			}
		}
	case "obs": // I[0]=1: include the per-document note counts; I[1]: 0 no export, 1 Markdown export without options, >= 2 with options (bits of I[1]-2)
		o.Res = Observe(d, op.Int(0) != 0)
		if m := op.Int(1); m > 0 {
			// exported through the world's ONE Exporter, as a program that exports several documents uses it
			ex, _ := w.Extra["md-exporter"].(*markdown.Exporter)
			if ex == nil {
				ex = markdown.NewExporter(nil)
				w.Extra["md-exporter"] = ex
			}
			var eo *markdown.ExportOptions
			if m >= 2 {
				eo = markdown.DefaultExportOptions()
				b := m - 2
				eo.UseGFMTables, eo.PreserveFootnotes, eo.PreserveLineBreaks, eo.IncludeMetadata = b&1 != 0, b&2 != 0, b&4 != 0, b&8 != 0
			}
			md, err := ex.ExportToString(d, eo)
			o.Res += fmt.Sprintf("md=%s/%v;", sim.Digest([]byte(md)), err != nil)
			w.Stats.Probe("markdown_exports")
		}
	default:
		return false
	}
	return true
}

var noteMarker = regexp.MustCompile(`^\[(尾注)?[0-9]+\]$`)

// Observe reads a document through its accessors and returns the results as
// "key=value;" fields (sorted by construction): what a caller can see without
// saving.
func Observe(d *document.Document, counts bool) string {
	var b bytes.Buffer
	if d.Body == nil {
		return "body=nil;"
	}
	ps := d.Body.GetParagraphs()
	ts := d.Body.GetTables()
	var text, markers bytes.Buffer
	for _, p := range ps {
		for i := range p.Runs {
			t := p.Runs[i].Text.Content
			if noteMarker.MatchString(t) { // the visible number of a note reference
				markers.WriteString(t)
				t = "[#]"
			}
			text.WriteString(t)
		}
		text.WriteByte('\n')
	}
	var cells bytes.Buffer
	for _, t := range ts {
		fmt.Fprintf(&cells, "%dx%d:", t.GetRowCount(), t.GetColumnCount())
	}
	fmt.Fprintf(&b, "elems=%d;paras=%d;tables=%d;shape=%s;text=%s;", len(d.Body.Elements), len(ps), len(ts), cells.String(), sim.Digest(text.Bytes()))
	fmt.Fprintf(&b, "markers=%s;", sim.Digest(markers.Bytes()))
	if counts {
		fmt.Fprintf(&b, "fncount=%d;encount=%d;", d.GetFootnoteCount(), d.GetEndnoteCount())
	}
	hs := d.ListHeadings()
	var ht bytes.Buffer
	for _, h := range hs {
		fmt.Fprintf(&ht, "%d:%s|", h.Level, h.Text)
	}
	fmt.Fprintf(&b, "headings=%d/%s;", len(hs), sim.Digest(ht.Bytes()))
	hc := d.GetHeadingCount()
	fmt.Fprintf(&b, "hcount=")
	for l := 1; l <= 9; l++ {
		fmt.Fprintf(&b, "%d,", hc[l])
	}
	b.WriteByte(';')
	if s := d.GetPageSettings(); s != nil {
		fmt.Fprintf(&b, "page=%s/%s/%.2fx%.2f/%.2f,%.2f,%.2f,%.2f;", s.Size, s.Orientation, s.CustomWidth, s.CustomHeight, s.MarginTop, s.MarginRight, s.MarginBottom, s.MarginLeft)
	}
	if pr, err := d.GetDocumentProperties(); err == nil && pr != nil {
		fmt.Fprintf(&b, "title=%s;", sim.Digest([]byte(pr.Title+"|"+pr.Creator+"|"+pr.Subject)))
	}
	all := d.GetStyleManager().GetAllStyles()
	var sts []string
	for _, st := range all {
		x, _ := xml.Marshal(st)
		sts = append(sts, string(x))
	}
	sort.Strings(sts)
	fmt.Fprintf(&b, "styles=%d/%s;", len(all), sim.Digest([]byte(strings.Join(sts, "\n"))))
	// every style resolved along its based-on chain, the registry's typed views, and the registry again afterwards
	// (reading must not write)
	sm := d.GetStyleManager()
	var ids []string
	for _, st := range all {
		ids = append(ids, st.StyleID)
	}
	sort.Strings(ids)
	var res bytes.Buffer
	for _, id := range ids {
		x, _ := xml.Marshal(sm.GetStyleWithInheritance(id))
		fmt.Fprintf(&res, "%s=%s;%v;", id, sim.Digest(x), sm.StyleExists(id))
	}
	api := style.NewQuickStyleAPI(sm)
	fmt.Fprintf(&b, "resolved=%s;views=%d,%d,%d,%d,%d;", sim.Digest(res.Bytes()), len(sm.GetHeadingStyles()), len(sm.GetStylesByType(style.StyleTypeParagraph)),
		len(api.GetAllStylesInfo()), len(api.GetParagraphStylesInfo()), len(api.GetCharacterStylesInfo()))
	var sts2 []string
	for _, st := range sm.GetAllStyles() {
		x, _ := xml.Marshal(st)
		sts2 = append(sts2, string(x))
	}
	sort.Strings(sts2)
	fmt.Fprintf(&b, "styles_after_reads=%s;", sim.Digest([]byte(strings.Join(sts2, "\n"))))
	// tables through the remaining read accessors
	var tb bytes.Buffer
	for ti, t := range ts {
		if ti >= 3 {
			break
		}
		rows, cols := t.GetRowCount(), t.GetColumnCount()
		for i := 0; i < rows && i < 6; i++ {
			hdr, _ := t.IsRowHeader(i)
			keep, _ := t.IsRowKeepTogether(i)
			rh, _ := t.GetRowHeight(i)
			fmt.Fprintf(&tb, "r%d:%v,%v,%v|", i, hdr, keep, rh != nil)
			_ = t.ForEachInRow(i, func(col int, cell *document.TableCell, text string) error {
				fmt.Fprintf(&tb, "%d:%s,", col, text)
				return nil
			})
			for j := 0; j < cols && j < 6; j++ {
				mi, e1 := t.GetMergedCellInfo(i, j)
				cf, e2 := t.GetCellFormat(i, j)
				td, e3 := t.GetCellTextDirection(i, j)
				cps, e4 := t.GetCellParagraphs(i, j)
				nts, e5 := t.GetNestedTables(i, j)
				fmt.Fprintf(&tb, "c%d,%d:%v/%v/%v/%v/%v;m=%v;f=%v;d=%v;p=%d;n=%d|", i, j, e1 != nil, e2 != nil, e3 != nil, e4 != nil, e5 != nil, sortedMap(mi), cf != nil, td, len(cps), len(nts))
			}
		}
		if cols > 0 {
			_ = t.ForEachInColumn(0, func(row int, cell *document.TableCell, text string) error {
				fmt.Fprintf(&tb, "%d:%s,", row, text)
				return nil
			})
		}
		found, _ := t.FindCells(func(row, col int, cell *document.TableCell, text string) bool { return text != "" })
		lay := t.GetTableLayout()
		fmt.Fprintf(&tb, "found=%d;layout=%v;break=%s|", len(found), lay != nil, sortedMap(t.GetTableBreakInfo()))
	}
	fmt.Fprintf(&b, "tbl=%s;", sim.Digest(tb.Bytes()))
	return b.String()
}

func sortedMap(m map[string]interface{}) string {
	ks := make([]string, 0, len(m))
	for k := range m {
		ks = append(ks, k)
	}
	sort.Strings(ks)
	var b bytes.Buffer
	for _, k := range ks {
		fmt.Fprintf(&b, "%s=%v,", k, m[k])
	}
	return b.String()
}

func minInt(a, b int) int {
	if a < b {
		return a
	}
	return b
}
