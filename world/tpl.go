package world

import (
	"encoding/json"
	"fmt"
	"os"
	"path/filepath"
	"sort"

	"github.com/zerx-lab/wordZero/pkg/document"

	"verif/sim"
)

// TData is template data in a form that survives JSON (replay files).
type TData struct {
	Vars  map[string]any   `json:"v,omitempty"`
	Conds map[string]bool  `json:"c,omitempty"`
	Lists map[string][]any `json:"l,omitempty"`
	// name -> format, w, h, pixel seed [, size mode (0 nil config, 1 w+h, 2 w keep aspect, 3 h keep aspect, 4 config without size,
	// 5 config that already carries an alt text), width mm, height mm, via (0 SetImageFromData, 1 SetImage from a file,
	// 2 SetImageWithDetails with data, 3 SetImageWithDetails with a file)]; short entries mean nil config through SetImageFromData
	Images map[string][]int `json:"i,omitempty"`
}

// TplImageSpec draws the optional part of a template image entry: how the image reaches the data object and with which configuration.
func TplImageSpec(r *sim.Rand, base []int) []int {
	mode := r.Pick2(0, 0, 1, 2, 3, 4, 5)
	return append(append([]int{}, base...), mode, r.Range(5, 80), r.Range(5, 80), r.Pick2(0, 0, 1, 2, 2, 3))
}

func (d *TData) imgField(name string, i int) int {
	if v := d.Images[name]; len(v) > i {
		return v[i]
	}
	return 0
}

// ImageMode, ImageMM and ImageAlt describe a template image entry for the models: size mode (as the "img" operations number
// them; 0 = pixel size), the requested millimetres, and the alt text the picture must carry ("" when none is given).
func (d *TData) ImageMode(name string) int {
	if m := d.imgField(name, 4); m >= 1 && m <= 3 {
		return m
	}
	return 0
}
func (d *TData) ImageMM(name string) (float64, float64) {
	return float64(d.imgField(name, 5)), float64(d.imgField(name, 6))
}
func (d *TData) ImageAlt(name string) string {
	if via := d.imgField(name, 7); via == 2 || via == 3 {
		return fmt.Sprintf("tplalt-%s-%d", name, d.imgField(name, 3))
	}
	if d.imgField(name, 4) == 5 {
		return "cfgalt-" + name
	}
	return ""
}

func (d *TData) imageConfig(name string) *document.ImageConfig {
	wmm, hmm := d.ImageMM(name)
	switch d.imgField(name, 4) {
	case 1:
		return &document.ImageConfig{Size: &document.ImageSize{Width: wmm, Height: hmm}}
	case 2:
		return &document.ImageConfig{Size: &document.ImageSize{Width: wmm, KeepAspectRatio: true}}
	case 3:
		return &document.ImageConfig{Size: &document.ImageSize{Height: hmm, KeepAspectRatio: true}}
	case 4:
		return &document.ImageConfig{Position: document.ImagePositionInline, Alignment: document.AlignLeft}
	case 5:
		return &document.ImageConfig{Position: document.ImagePositionInline, Alignment: document.AlignRight, AltText: "cfgalt-" + name, Title: "cfgtitle"}
	}
	return nil
}

func (d *TData) JSON() string {
	b, _ := json.Marshal(d)
	return string(b)
}

func ParseTData(s string) *TData {
	var d TData
	_ = json.Unmarshal([]byte(s), &d)
	return &d
}

// ImageBytes returns the bytes of a template image.
func (d *TData) ImageBytes(name string) []byte {
	v := d.Images[name]
	if len(v) < 4 {
		return nil
	}
	return MakeImage(fmtNames[pickIdx(v[0], 3)], v[1], v[2], uint64(v[3]))
}

// ToLib builds a fresh library TemplateData (deep: nothing is shared with d). Images that are to come from a file come from memory.
func (d *TData) ToLib() *document.TemplateData { return d.ToLibIn("") }

// ToLibIn is ToLib with a directory in which the image files of file-based entries are written (they must exist when the data is rendered).
func (d *TData) ToLibIn(dir string) *document.TemplateData { return d.toLibIn(dir, false) }

// ToLibReplacing is ToLibIn with image files named after their placeholder alone (see toLibIn).
func (d *TData) ToLibReplacing(dir string) *document.TemplateData { return d.toLibIn(dir, true) }

func (d *TData) toLibIn(dir string, replacing bool) *document.TemplateData {
	td := document.NewTemplateData()
	var cp func(v any) any
	cp = func(v any) any {
		switch x := v.(type) {
		case map[string]any:
			m := map[string]interface{}{}
			for k, e := range x {
				m[k] = cp(e)
			}
			return m
		case []any:
			l := make([]interface{}, len(x))
			for i, e := range x {
				l[i] = cp(e)
			}
			return l
		}
		return v
	}
	keys := func(n int, f func(func(string))) []string {
		ks := make([]string, 0, n)
		f(func(k string) { ks = append(ks, k) })
		sort.Strings(ks)
		return ks
	}
	for _, k := range keys(len(d.Vars), func(add func(string)) {
		for k := range d.Vars {
			add(k)
		}
	}) {
		td.SetVariable(k, cp(d.Vars[k]))
	}
	for _, k := range keys(len(d.Conds), func(add func(string)) {
		for k := range d.Conds {
			add(k)
		}
	}) {
		td.SetCondition(k, d.Conds[k])
	}
	for _, k := range keys(len(d.Lists), func(add func(string)) {
		for k := range d.Lists {
			add(k)
		}
	}) {
		td.SetList(k, cp(d.Lists[k]).([]interface{}))
	}
	for _, k := range keys(len(d.Images), func(add func(string)) {
		for k := range d.Images {
			add(k)
		}
	}) {
		data, cfg, via := d.ImageBytes(k), d.imageConfig(k), d.imgField(k, 7)
		path := ""
		if (via == 1 || via == 3) && dir != "" && data != nil {
			_ = os.MkdirAll(dir, 0o755)
			path = filepath.Join(dir, fmt.Sprintf("%s-%d.%s", k, d.imgField(k, 3), fmtNames[pickIdx(d.imgField(k, 0), 3)]))
			if replacing {
				// the file is named after the placeholder alone: a later data set that gives the placeholder another picture of that
				// format REPLACES the file's content under the same name (only for worlds that render one after the other)
				path = filepath.Join(dir, fmt.Sprintf("%s.%s", k, fmtNames[pickIdx(d.imgField(k, 0), 3)]))
			}
			if os.WriteFile(path, data, 0o644) != nil {
				path = ""
			}
		}
		alt, title := fmt.Sprintf("tplalt-%s-%d", k, d.imgField(k, 3)), "tpltitle-"+k
		switch {
		case via == 1 && path != "":
			td.SetImage(k, path, cfg)
		case via == 3 && path != "":
			td.SetImageWithDetails(k, path, nil, cfg, alt, title)
		case via == 2 || via == 3:
			td.SetImageWithDetails(k, "", data, cfg, alt, title)
		default:
			td.SetImageFromData(k, data, cfg)
		}
	}
	return td
}

// engine returns the world's template engine.
func (w *World) engine() *document.TemplateEngine {
	if e, ok := w.Extra["engine"].(*document.TemplateEngine); ok {
		return e
	}
	e := document.NewTemplateEngine()
	w.Extra["engine"] = e
	return e
}

// opTplRender renders document slot I[0] as a template into slot D.
// I[1]: 0 RenderToDocument, 1 RenderTemplateToDocument; I[2]=1 forces a reload
// of the template (otherwise the cached template is used: two renders from one
// cached template share whatever the engine shares). S[0] = data JSON.
func (w *World) opTplRender(dst *Doc, op sim.Op, o *Obs) {
	src := w.Doc(op.Int(0))
	if src == dst || src.Dead || src.D == nil {
		o.Skipped, o.Res = true, "skip"
		return
	}
	name := fmt.Sprintf("tpl%d", src.Slot)
	eng := w.engine()
	loaded, _ := w.Extra["loaded:"+name].(*document.Document)
	if loaded != src.D || op.Int(2) == 1 {
		if _, err := eng.LoadTemplateFromDocument(name, src.D); err != nil {
			o.Err = err
			return
		}
		w.Extra["loaded:"+name] = src.D
	}
	data := ParseTData(op.Str(0))
	lib := data.ToLibIn(filepath.Join(w.Tmp, "tplimg"))
	if op.Int(4) == 1 {
		lib = data.ToLibReplacing(filepath.Join(w.Tmp, "tplimg"))
	}
	if op.Int(3) == 1 {
		// ONE data object for all renders of this world, as a mail merge with a shared logo uses it: the images
		// (and every other entry) stay the objects they were at the first render, only the variables are set again
		if shared, ok := w.Extra["shared-tdata"].(*document.TemplateData); ok {
			for _, k := range sortedKeys(data.Vars) {
				shared.SetVariable(k, data.Vars[k])
			}
			lib = shared
			w.Stats.Probe("renders_with_reused_data_object")
		} else {
			w.Extra["shared-tdata"] = lib
		}
	}
	if op.Int(5) == 1 {
		// read fault: the picture files of this render are not there when the engine wants them (removed after the data object
		// was filled); the render may fail - a later render that finds its file must not be affected
		if ents, e := os.ReadDir(filepath.Join(w.Tmp, "tplimg")); e == nil {
			for _, ent := range ents {
				if os.Remove(filepath.Join(w.Tmp, "tplimg", ent.Name())) == nil {
					w.Stats.Fault("R-missing-file")
				}
			}
		}
	}
	var d *document.Document
	var err error
	if op.Int(1) == 0 {
		d, err = eng.RenderToDocument(name, lib)
	} else {
		d, err = eng.RenderTemplateToDocument(name, lib)
	}
	o.Err = err
	if err != nil || d == nil {
		return
	}
	dst.D, dst.Dead, dst.Foreign, dst.Base = d, false, nil, nil
	dst.Paras, dst.Tables, dst.Images = nil, nil, nil
	if d.Body != nil {
		dst.Paras = append(dst.Paras, d.Body.GetParagraphs()...)
		dst.Tables = append(dst.Tables, d.Body.GetTables()...)
	}
	w.Stats.Probe("template_renders")
}

func sortedKeys(m map[string]any) []string {
	ks := make([]string, 0, len(m))
	for k := range m {
		ks = append(ks, k)
	}
	sort.Strings(ks)
	return ks
}
