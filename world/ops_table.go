package world

import (
	"github.com/zerx-lab/wordZero/pkg/document"

	"verif/sim"
)

func strs(op sim.Op, from int) []string {
	var out []string
	for i := from; i < len(op.S); i++ {
		out = append(out, string(op.S[i]))
	}
	return out
}

// TableConfigOf decodes I[ib..]=rows, cols, width, useColWidths, withData; S[sb..]=cell data row-major.
func TableConfigOf(op sim.Op, ib, sb int) *document.TableConfig {
	rows, cols := op.Int(ib), op.Int(ib+1)
	cfg := &document.TableConfig{Rows: rows, Cols: cols, Width: op.Int(ib + 2)}
	if op.Int(ib+3) != 0 && cols > 0 && cols < 64 {
		for j := 0; j < cols; j++ {
			cfg.ColWidths = append(cfg.ColWidths, 500+97*j)
		}
	}
	if op.Int(ib+4) != 0 && rows > 0 && cols > 0 && rows < 64 && cols < 64 {
		data := strs(op, sb)
		k := 0
		for i := 0; i < rows; i++ {
			var r []string
			for j := 0; j < cols; j++ {
				if k < len(data) {
					r = append(r, data[k])
				} else {
					r = append(r, "")
				}
				k++
			}
			cfg.Data = append(cfg.Data, r)
		}
	}
	return cfg
}

func (w *World) applyTable(ds *Doc, op sim.Op, o *Obs) {
	if op.K == "t.new" {
		t, err := ds.D.AddTable(TableConfigOf(op, 0, 0))
		o.Err = err
		if err == nil && t != nil {
			ds.Tables = append(ds.Tables, t)
		}
		return
	}
	if op.K == "t.create" { // a table that is built first and put into the body later (CreateTable ... Body.AddElement)
		t, err := ds.D.CreateTable(TableConfigOf(op, 0, 0))
		o.Err = err
		if err == nil && t != nil {
			ds.Detached = append(ds.Detached, t)
		}
		return
	}
	if op.K == "t.attach" { // the oldest table still waiting goes into the body
		if len(ds.Detached) == 0 || ds.D.Body == nil {
			o.Skipped, o.Res = true, "skip"
			return
		}
		t := ds.Detached[0]
		ds.Detached = ds.Detached[1:]
		ds.D.Body.AddElement(t)
		ds.Tables = append(ds.Tables, t)
		w.Stats.Probe("detached_table_attached")
		return
	}
	t := ds.table(op.Int(0))
	if t == nil {
		o.Skipped, o.Res = true, "skip"
		return
	}
	a, b, c, d := op.Int(1), op.Int(2), op.Int(3), op.Int(4)
	switch op.K {
	case "t.insrow":
		o.Err = t.InsertRow(a, strs(op, 0))
	case "t.approw":
		o.Err = t.AppendRow(strs(op, 0))
	case "t.delrow":
		o.Err = t.DeleteRow(a)
	case "t.delrows":
		o.Err = t.DeleteRows(a, b)
	case "t.inscol":
		o.Err = t.InsertColumn(a, strs(op, 0), b)
	case "t.appcol":
		o.Err = t.AppendColumn(strs(op, 0), b)
	case "t.delcol":
		o.Err = t.DeleteColumn(a)
	case "t.delcols":
		o.Err = t.DeleteColumns(a, b)
	case "t.settext":
		o.Err = t.SetCellText(a, b, op.Str(0))
	case "t.setftext": // I[3..7] format, I[8]=1 nil
		var f *document.TextFormat
		if op.Int(8) == 0 {
			f = TextFormatOf(op, 3, 1)
		}
		o.Err = t.SetCellFormattedText(a, b, op.Str(0), f)
	case "t.addftext":
		var f *document.TextFormat
		if op.Int(8) == 0 {
			f = TextFormatOf(op, 3, 1)
		}
		o.Err = t.AddCellFormattedText(a, b, op.Str(0), f)
	case "t.mergeh":
		o.Err = t.MergeCellsHorizontal(a, b, c)
	case "t.mergev":
		o.Err = t.MergeCellsVertical(a, b, c)
	case "t.merger":
		o.Err = t.MergeCellsRange(a, b, c, d)
	case "t.unmerge":
		o.Err = t.UnmergeCells(a, b)
	case "t.clearcell":
		o.Err = t.ClearCellContent(a, b)
	case "t.clearfmt":
		o.Err = t.ClearCellFormat(a, b)
	case "t.clearparas":
		o.Err = t.ClearCellParagraphs(a, b)
	case "t.addpara":
		_, o.Err = t.AddCellParagraph(a, b, op.Str(0))
	case "t.addfpara":
		var f *document.TextFormat
		if op.Int(8) == 0 {
			f = TextFormatOf(op, 3, 1)
		}
		_, o.Err = t.AddCellFormattedParagraph(a, b, op.Str(0), f)
	case "t.nested": // I[3..7] table config
		_, o.Err = t.AddNestedTable(a, b, TableConfigOf(op, 3, 0))
	case "t.celllist":
		o.Err = t.AddCellList(a, b, &document.CellListConfig{Type: document.ListType(op.Str(0)), BulletSymbol: document.BulletType(op.Str(1)), Items: strs(op, 2)})
	case "t.clear":
		t.ClearTable()
	case "t.copy":
		if cp := t.CopyTable(); cp != nil {
			ds.Tables = append(ds.Tables, cp)
		}
	case "t.cellfmt":
		cf := &document.CellFormat{
			HorizontalAlign: document.CellAlignment(op.Str(0)), VerticalAlign: document.CellVerticalAlignment(op.Str(1)),
			TextDirection: document.CellTextDirection(op.Str(2)), BackgroundColor: op.Str(3), Padding: op.Int(9),
		}
		if op.Int(8) == 0 {
			cf.TextFormat = TextFormatOf(op, 3, 4)
		}
		o.Err = t.SetCellFormat(a, b, cf)
	case "t.padding":
		o.Err = t.SetCellPadding(a, b, c)
	case "t.textdir":
		o.Err = t.SetCellTextDirection(a, b, document.CellTextDirection(op.Str(0)))
	case "t.rowheight":
		o.Err = t.SetRowHeight(a, &document.RowHeightConfig{Height: b, Rule: document.RowHeightRule(op.Str(0))})
	case "t.layout": // a=alignment b=wrap c=position
		cfg := &document.TableLayoutConfig{Alignment: []document.TableAlignment{document.TableAlignLeft, document.TableAlignCenter, document.TableAlignRight, document.TableAlignInside, document.TableAlignOutside}[pickIdx(a, 5)]}
		if b != 0 {
			cfg.TextWrap = document.TextWrapAround
		} else {
			cfg.TextWrap = document.TextWrapNone
		}
		if c != 0 {
			cfg.Position = document.PositionFloating
			cfg.Positioning = &document.TablePositioning{}
		} else {
			cfg.Position = document.PositionInline
		}
		o.Err = t.SetTableLayout(cfg)
	case "t.pagebreak":
		o.Err = t.SetTablePageBreak(&document.TablePageBreakConfig{KeepWithNext: a&1 != 0, KeepLines: a&2 != 0, PageBreakBefore: a&4 != 0, WidowControl: a&8 != 0})
	case "t.rowheightrange":
		o.Err = t.SetRowHeightRange(a, b, &document.RowHeightConfig{Height: c, Rule: document.RowHeightRule(op.Str(0))})
	case "t.rmcellborders":
		o.Err = t.RemoveCellBorders(a, b)
	case "t.rowheader":
		o.Err = t.SetRowAsHeader(a, b != 0)
	case "t.headerrows":
		o.Err = t.SetHeaderRows(a, b)
	case "t.keeptogether":
		o.Err = t.SetRowKeepTogether(a, b != 0)
	case "t.keepnext":
		o.Err = t.SetRowKeepWithNext(a, b != 0)
	case "t.align":
		o.Err = t.SetTableAlignment(document.TableAlignment(op.Str(0)))
	case "t.style":
		o.Err = t.ApplyTableStyle(&document.TableStyleConfig{Template: document.TableStyleTemplate(op.Str(0)), StyleID: op.Str(1), FirstRowHeader: a&1 != 0, LastRowTotal: a&2 != 0, FirstColumnHeader: a&4 != 0, LastColumnTotal: a&8 != 0, BandedRows: a&16 != 0, BandedColumns: a&32 != 0})
	case "t.borders":
		// every side gets its own configuration (a frame differs from the inner grid)
		side := func(k int) *document.BorderConfig {
			styles := []string{op.Str(0), "single", "dotted", "double", "none", "thick"}
			return &document.BorderConfig{Style: document.BorderStyle(styles[(k*(1+b))%len(styles)]), Width: a + k, Color: []string{op.Str(1), "FF0000", "00FF00", "0000FF", "auto", "808080"}[k], Space: (b + k) % 4}
		}
		o.Err = t.SetTableBorders(&document.TableBorderConfig{Top: side(0), Left: side(1), Bottom: side(2), Right: side(3), InsideH: side(4), InsideV: side(5)})
	case "t.noborders":
		o.Err = t.RemoveTableBorders()
	case "t.shading":
		o.Err = t.SetTableShading(&document.ShadingConfig{Pattern: document.ShadingPattern(op.Str(0)), ForegroundColor: op.Str(1), BackgroundColor: op.Str(2)})
	case "t.cellborders":
		cside := func(k int) *document.BorderConfig {
			styles := []string{op.Str(0), "single", "dashed", "double"}
			return &document.BorderConfig{Style: document.BorderStyle(styles[(k*(1+d))%len(styles)]), Width: c + k, Color: []string{op.Str(1), "FF0000", "00FF00", "0000FF"}[k], Space: (d + k) % 3}
		}
		o.Err = t.SetCellBorders(a, b, &document.CellBorderConfig{Top: cside(0), Left: cside(1), Bottom: cside(2), Right: cside(3)})
	case "t.cellshading":
		o.Err = t.SetCellShading(a, b, &document.ShadingConfig{Pattern: document.ShadingPattern(op.Str(0)), ForegroundColor: op.Str(1), BackgroundColor: op.Str(2)})
	case "t.altrows":
		o.Err = t.SetAlternatingRowColors(op.Str(0), op.Str(1))
	case "t.gettext":
		s, err := t.GetCellText(a, b)
		o.Err = err
		if err == nil {
			o.Res = "=" + s
		}
	case "t.counts":
		o.Res = itoa(t.GetRowCount()) + "x" + itoa(t.GetColumnCount())
	default:
		panic("world: unknown table op " + op.K)
	}
}

func itoa(i int) string {
	if i == 0 {
		return "0"
	}
	neg := i < 0
	if neg {
		i = -i
	}
	var b [24]byte
	n := len(b)
	for i > 0 {
		n--
		b[n] = byte('0' + i%10)
		i /= 10
	}
	if neg {
		n--
		b[n] = '-'
	}
	return string(b[n:])
}
