package world

import (
	"github.com/zerx-lab/wordZero/pkg/document"

	"verif/sim"
)

// TextFormatOf decodes a text format from an op: I[base..base+4] =
// bold, italic, size, underline, strike; S[sb..sb+2] = colour, font, highlight.
func TextFormatOf(op sim.Op, ib, sb int) *document.TextFormat {
	return &document.TextFormat{
		Bold:       op.Int(ib) != 0,
		Italic:     op.Int(ib+1) != 0,
		FontSize:   op.Int(ib + 2),
		Underline:  op.Int(ib+3) != 0,
		Strike:     op.Int(ib+4) != 0,
		FontColor:  op.Str(sb),
		FontFamily: op.Str(sb + 1),
		Highlight:  op.Str(sb + 2),
	}
}

func (w *World) applyBody(ds *Doc, op sim.Op, o *Obs) bool {
	d := ds.D
	switch op.K {
	case "para":
		ds.Paras = append(ds.Paras, d.AddParagraph(op.Str(0)))
	case "fpara":
		var f *document.TextFormat
		if op.Int(5) == 0 {
			f = TextFormatOf(op, 0, 1)
		}
		ds.Paras = append(ds.Paras, d.AddFormattedParagraph(op.Str(0), f))
	case "heading":
		ds.Paras = append(ds.Paras, d.AddHeadingParagraph(op.Str(0), op.Int(0)))
	case "headingbm":
		ds.Paras = append(ds.Paras, d.AddHeadingParagraphWithBookmark(op.Str(0), op.Int(0), op.Str(1)))
	case "pbreak":
		d.AddPageBreak()
	case "rm.para":
		p := ds.para(op.Int(0))
		if op.Int(1) == 1 { // foreign paragraph that was never in this document
			p = &document.Paragraph{}
		} else if op.Int(1) == 2 {
			p = nil
		}
		if d.RemoveParagraph(p) {
			o.Res = "true"
		} else {
			o.Res = "false"
		}
	case "rm.parai":
		if d.RemoveParagraphAt(op.Int(0)) {
			o.Res = "true"
		} else {
			o.Res = "false"
		}
	case "rm.elem":
		if d.RemoveElementAt(op.Int(0)) {
			o.Res = "true"
		} else {
			o.Res = "false"
		}
	default:
		return false
	}
	return true
}

func (w *World) applyPara(ds *Doc, op sim.Op, o *Obs) {
	p := ds.para(op.Int(0))
	if p == nil {
		o.Skipped = true
		o.Res = "skip"
		return
	}
	on := op.Int(1) != 0
	switch op.K {
	case "p.addtext":
		var f *document.TextFormat
		if op.Int(6) == 0 {
			f = TextFormatOf(op, 1, 1)
		}
		p.AddFormattedText(op.Str(0), f)
	case "p.inlinemath":
		p.AddInlineMath(op.Str(0))
	case "p.pbreak":
		p.AddPageBreak()
	case "p.align":
		p.SetAlignment(document.AlignmentType(op.Str(0)))
	case "p.spacing":
		p.SetSpacing(&document.SpacingConfig{LineSpacing: op.Flt(0), BeforePara: op.Int(1), AfterPara: op.Int(2), FirstLineIndent: op.Int(3)})
	case "p.indent":
		p.SetIndentation(op.Flt(0), op.Flt(1), op.Flt(2))
	case "p.keepnext":
		p.SetKeepWithNext(on)
	case "p.keeplines":
		p.SetKeepLines(on)
	case "p.pbb":
		p.SetPageBreakBefore(on)
	case "p.widow":
		p.SetWidowControl(on)
	case "p.snap":
		p.SetSnapToGrid(on)
	case "p.outline":
		p.SetOutlineLevel(op.Int(1))
	case "p.style":
		p.SetStyle(op.Str(0))
	case "p.bold":
		p.SetBold(on)
	case "p.italic":
		p.SetItalic(on)
	case "p.underline":
		p.SetUnderline(on)
	case "p.strike":
		p.SetStrike(on)
	case "p.highlight":
		p.SetHighlight(op.Str(0))
	case "p.font":
		p.SetFontFamily(op.Str(0))
	case "p.size":
		p.SetFontSize(op.Int(1))
	case "p.color":
		p.SetColor(op.Str(0))
	case "p.border":
		bc := func(i int) *document.ParagraphBorderConfig {
			if op.Int(1)&(1<<i) == 0 {
				return nil
			}
			return &document.ParagraphBorderConfig{Style: document.BorderStyle(op.Str(0)), Size: op.Int(2), Color: op.Str(1), Space: op.Int(3)}
		}
		p.SetBorder(bc(0), bc(1), bc(2), bc(3))
	case "p.hrule":
		p.SetHorizontalRule(document.BorderStyle(op.Str(0)), op.Int(1), op.Str(1))
	case "p.format":
		cfg := &document.ParagraphFormatConfig{
			Alignment: document.AlignmentType(op.Str(0)), Style: op.Str(1),
			LineSpacing: op.Flt(0), BeforePara: op.Int(1), AfterPara: op.Int(2), FirstLineIndent: op.Int(3),
			FirstLineCm: op.Flt(1), LeftCm: op.Flt(2), RightCm: op.Flt(3),
			KeepWithNext: op.Int(4)&1 != 0, KeepLines: op.Int(4)&2 != 0, PageBreakBefore: op.Int(4)&4 != 0, WidowControl: op.Int(4)&8 != 0,
			OutlineLevel: op.Int(5),
		}
		if op.Int(4)&16 != 0 {
			b := op.Int(4)&32 != 0
			cfg.SnapToGrid = &b
		}
		p.SetParagraphFormat(cfg)
	default:
		panic("world: unknown paragraph op " + op.K)
	}
}

func (w *World) applyPage(ds *Doc, op sim.Op, o *Obs) {
	d := ds.D
	switch op.K {
	case "pg.size":
		o.Err = d.SetPageSize(document.PageSize(op.Str(0)))
	case "pg.custom":
		o.Err = d.SetCustomPageSize(op.Flt(0), op.Flt(1))
	case "pg.orient":
		o.Err = d.SetPageOrientation(document.PageOrientation(op.Str(0)))
	case "pg.margins":
		o.Err = d.SetPageMargins(op.Flt(0), op.Flt(1), op.Flt(2), op.Flt(3))
	case "pg.hfdist":
		o.Err = d.SetHeaderFooterDistance(op.Flt(0), op.Flt(1))
	case "pg.gutter":
		o.Err = d.SetGutterWidth(op.Flt(0))
	case "pg.grid":
		o.Err = d.SetDocGrid(document.DocGridType(op.Str(0)), op.Int(0), op.Int(1))
	case "pg.cleargrid":
		o.Err = d.ClearDocGrid()
	case "pg.set":
		if op.Int(2) == 1 {
			o.Err = d.SetPageSettings(nil)
			return
		}
		o.Err = d.SetPageSettings(&document.PageSettings{
			Size: document.PageSize(op.Str(0)), CustomWidth: op.Flt(0), CustomHeight: op.Flt(1),
			Orientation: document.PageOrientation(op.Str(1)),
			MarginTop:   op.Flt(2), MarginRight: op.Flt(3), MarginBottom: op.Flt(4), MarginLeft: op.Flt(5),
			HeaderDistance: op.Flt(6), FooterDistance: op.Flt(7), GutterWidth: op.Flt(8),
			DocGridType: document.DocGridType(op.Str(2)), DocGridLinePitch: op.Int(0), DocGridCharSpace: op.Int(1),
		})
	case "pg.get":
		_ = d.GetPageSettings()
	default:
		panic("world: unknown page op " + op.K)
	}
}
