package world

import (
	"fmt"

	"verif/sim"
)

// Families of operations a generated history may draw from (swarm style).
const (
	FBody = 1 << iota
	FParaFmt
	FTable
	FTableFmt
	FImage
	FHF
	FPage
	FList
	FNote
	FTOC
	FProp
	FRemove
	FMath
	FStyle
	FAll = 1<<iota - 1
)

// Gen generates operation lists from one PRNG stream.
type Gen struct {
	R *sim.Rand
	// lastImgCfg is the last picture operation whose configuration object the caller keeps (see opImage)
	lastImgCfg *sim.Op
	nnested    int // nested tables created so far
	tag        int
	Alpha      []int // enabled alphabet classes (see Text)
	Fam        int
	MaxRows    int
	MaxCols    int
	// constraints keyed by known findings (lane A); false = unconstrained
	HFOncePerKind     bool // (inactive since the finding hf-duplicate-reference was fixed)
	hfUsed            map[string]bool
	RectTablesOnly    bool // no column/row structural edits after a merge
	merged            map[int]bool
	NoJPGName         bool // image file names keep an extension the library registers
	WellFormedMath    bool // formulas are well-formed OMML fragments
	NoTableTemplates  bool // ApplyTableStyle only with style ids the registry defines
	AllowStyleRemoval bool
	NoAddText         bool // no text is added to existing paragraphs
	TableNewOnly      bool // tables are only created (with tagged cell data), never edited
	NoCellImage       bool
	StyleEdits        bool // registered styles are also changed in place through the public structs
	Extra             bool // also the less common calls: floating pictures, table layout, inline formulas, multi-level lists, notes on runs, TOC styles
	BigImages         bool // now and then an image whose media part exceeds 64 KiB (written through, not buffered; large enough for anything that treats big parts differently)
	SharedStyleIDs    bool // custom style ids come from a small pool shared by all documents of a run (same id, different definitions)
	NoCellList        bool // no lists inside table cells (they use the process-wide numbering registry)
	ObsEvery          int  // > 0: about one accessor sweep ("obs") every ObsEvery ops
	ObsExport         bool // accessor sweeps also export the document to Markdown (through the world's one Exporter)
	ObsCounts         bool // accessor sweeps read the note counts (which come from the process-wide registry)
	styles            []string
	ntables           int
	nparas            int
	nimages           int
}

func NewGen(r *sim.Rand) *Gen {
	return &Gen{R: r, Alpha: []int{0}, Fam: FAll, MaxRows: 4, MaxCols: 4, hfUsed: map[string]bool{}, merged: map[int]bool{}}
}

var hostile = [][]string{
	0: {"plain", "Hello World", "abc def", "x", "The quick brown fox", "0123456789", "a-b_c.d"},
	1: {"<", ">", "&", "\"", "'", "<w:t>", "</w:p>", "&amp;", "&#x0;", "a<b>c&d\"e'f", "]]>", "<![CDATA[x]]>", "<!-- c -->", "<?xml?>"},
	2: {"\x00", "\x01", "\x08", "\x0b", "\x0c", "\x1f", "\x7f", "a\x02b", "￾", "￿", "\xff\xfe", "\xc0\x80", "\xed\xa0\x80", "tab\there", "nl\nhere", "cr\rhere"},
	3: {" ", "  ", " lead", "trail ", " both ", "\t", "\n", "a  b", "", " ", " x"},
	4: {"中文", "日本語テキスト", "한국어", "العربية", "עברית", "😀", "𝒳𝓎", "é", "‮RTL", "ｆｕｌｌ"},
	5: {"{{x}}", "{{name}}", "{{#each items}}", "{{/each}}", "{{#if c}}", "{{else}}", "{{/if}}", "{{this}}", "{{@index}}", "{", "}", "{{", "}}", "{{#image p}}", "{{#block b}}", "{{extends \"b\"}}"},
}

// Text returns a string from the enabled alphabet classes carrying a unique tag.
func (g *Gen) Text() string {
	g.tag++
	cls := g.Alpha[g.R.Intn(len(g.Alpha))]
	words := hostile[cls]
	n := 1 + g.R.Intn(3)
	s := ""
	for i := 0; i < n; i++ {
		if i > 0 && g.R.Bool() {
			s += " "
		}
		s += words[g.R.Intn(len(words))]
	}
	tag := fmt.Sprintf("⟦%d⟧", g.tag)
	switch g.R.Intn(4) {
	case 0:
		return tag + s
	case 1:
		return s + tag
	default:
		h := len(s) / 2
		for h > 0 && h < len(s) && s[h]&0xC0 == 0x80 { // do not cut inside a UTF-8 sequence
			h--
		}
		return s[:h] + tag + s[h:]
	}
}

// PlainText is a tagged ASCII string (for arguments whose hostile values
// are some other check's business).
func (g *Gen) PlainText() string {
	g.tag++
	return fmt.Sprintf("txt⟦%d⟧", g.tag)
}

func (g *Gen) str(s string) sim.Str { return sim.Str(s) }

var (
	colors     = []string{"FF0000", "00FF00", "0000FF", "000000", "auto", "808080", ""}
	fonts      = []string{"Arial", "Times New Roman", "宋体", "Courier New", ""}
	highlights = []string{"yellow", "green", "cyan", "red", "", ""}
	aligns     = []string{"left", "center", "right", "both"}
	hfKinds    = []string{"default", "first", "even"}
	listTypes  = []string{"bullet", "number", "decimal", "lowerLetter", "upperLetter", "lowerRoman", "upperRoman"}
	bullets    = []string{"•", "○", "■", "–", "→"}
	pageSizes  = []string{"A4", "Letter", "Legal", "A3", "A5"}
	borders    = []string{"single", "double", "dashed", "dotted", "thick", "wave", "none"}
)

// Format appends a text format to the op's I and S slices.
func (g *Gen) format(op *sim.Op) {
	r := g.R
	op.I = append(op.I, r.Intn(2), r.Intn(2), []int{0, 8, 12, 24, 72}[r.Intn(5)], r.Intn(2), r.Intn(2))
	op.S = append(op.S, g.str(colors[r.Intn(len(colors))]), g.str(fonts[r.Intn(len(fonts))]), g.str(highlights[r.Intn(len(highlights))]))
}

func (g *Gen) has(f int) bool { return g.Fam&f != 0 }

// DocOps generates n operations on document slot d.
func (g *Gen) DocOps(d, n int) []sim.Op {
	var ops []sim.Op
	for len(ops) < n {
		if op, ok := g.one(d); ok {
			op.D = d
			ops = append(ops, op)
			if g.ObsEvery > 0 && g.R.Intn(g.ObsEvery) == 0 {
				ob := sim.Op{K: "obs", D: d, I: []int{btoi(g.ObsCounts), 0}}
				if g.ObsExport {
					ob.I[1] = []int{0, 1, 1, 2 + g.R.Intn(16)}[g.R.Intn(4)]
				}
				ops = append(ops, ob)
			}
		}
	}
	return ops
}

func (g *Gen) one(d int) (sim.Op, bool) {
	r := g.R
	type cand struct {
		w int
		f func() (sim.Op, bool)
	}
	var cs []cand
	add := func(fam, w int, f func() (sim.Op, bool)) {
		if g.has(fam) {
			cs = append(cs, cand{w, f})
		}
	}
	add(FBody, 6, g.opBody)
	add(FParaFmt, 4, g.opParaFmt)
	add(FTable, 4, g.opTable)
	add(FTableFmt, 2, g.opTableFmt)
	add(FImage, 2, g.opImage)
	add(FHF, 1, g.opHF)
	add(FPage, 1, g.opPage)
	add(FList, 2, g.opList)
	add(FNote, 1, g.opNote)
	add(FTOC, 1, g.opTOC)
	add(FProp, 1, g.opProp)
	add(FRemove, 1, g.opRemove)
	add(FMath, 1, g.opMath)
	add(FStyle, 1, g.opStyle)
	if len(cs) == 0 {
		return sim.Op{K: "para", S: []sim.Str{g.str(g.Text())}}, true
	}
	tot := 0
	for _, c := range cs {
		tot += c.w
	}
	x := r.Intn(tot)
	for _, c := range cs {
		if x < c.w {
			return c.f()
		}
		x -= c.w
	}
	return sim.Op{}, false
}

func (g *Gen) opBody() (sim.Op, bool) {
	r := g.R
	g.nparas++
	switch r.Intn(6) {
	case 0, 1:
		return sim.Op{K: "para", S: []sim.Str{g.str(g.Text())}}, true
	case 2:
		op := sim.Op{K: "fpara", S: []sim.Str{g.str(g.Text())}}
		g.format(&op)
		op.I = append(op.I, btoi(r.Chance(0.1)))
		return op, true
	case 3:
		return sim.Op{K: "heading", S: []sim.Str{g.str(g.Text())}, I: []int{r.Range(1, 9)}}, true
	case 4:
		g.nparas--
		return sim.Op{K: "pbreak"}, true
	default:
		if g.nparas <= 1 || g.NoAddText {
			return sim.Op{K: "para", S: []sim.Str{g.str(g.Text())}}, true
		}
		g.nparas--
		op := sim.Op{K: "p.addtext", I: []int{r.Intn(64)}, S: []sim.Str{g.str(g.Text())}}
		g.format(&op)
		op.I = append(op.I, btoi(r.Chance(0.1)))
		return op, true
	}
}

func btoi(b bool) int {
	if b {
		return 1
	}
	return 0
}

func (g *Gen) opParaFmt() (sim.Op, bool) {
	r := g.R
	if g.nparas == 0 {
		return sim.Op{}, false
	}
	p := r.Intn(64)
	switch r.Intn(16) {
	case 0:
		return sim.Op{K: "p.align", I: []int{p}, S: []sim.Str{g.str(aligns[r.Intn(4)])}}, true
	case 1:
		return sim.Op{K: "p.spacing", I: []int{p, r.Intn(30), r.Intn(30), r.Intn(40)}, F: []float64{[]float64{0, 1, 1.15, 1.5, 2, 3}[r.Intn(6)]}}, true
	case 2:
		return sim.Op{K: "p.indent", I: []int{p}, F: []float64{float64(r.Range(-20, 30)) / 10, float64(r.Intn(40)) / 10, float64(r.Intn(40)) / 10}}, true
	case 3:
		return sim.Op{K: r.Pick("p.keepnext", "p.keeplines", "p.pbb", "p.widow", "p.snap"), I: []int{p, r.Intn(2)}}, true
	case 4:
		return sim.Op{K: "p.outline", I: []int{p, r.Range(-1, 10)}}, true
	case 5:
		return sim.Op{K: r.Pick("p.bold", "p.italic", "p.underline", "p.strike"), I: []int{p, r.Intn(2)}}, true
	case 6:
		return sim.Op{K: "p.highlight", I: []int{p}, S: []sim.Str{g.str(highlights[r.Intn(4)])}}, true
	case 7:
		return sim.Op{K: "p.font", I: []int{p}, S: []sim.Str{g.str(fonts[r.Intn(4)])}}, true
	case 8:
		return sim.Op{K: "p.size", I: []int{p, r.Range(1, 72)}}, true
	case 9:
		return sim.Op{K: "p.color", I: []int{p}, S: []sim.Str{g.str(colors[r.Intn(4)])}}, true
	case 10:
		return sim.Op{K: "p.border", I: []int{p, r.Intn(16), r.Range(1, 24), r.Intn(5)}, S: []sim.Str{g.str(borders[r.Intn(len(borders))]), g.str(colors[r.Intn(4)])}}, true
	case 11:
		return sim.Op{K: "p.hrule", I: []int{p, r.Range(1, 24)}, S: []sim.Str{g.str(borders[r.Intn(len(borders))]), g.str(colors[r.Intn(4)])}}, true
	case 12:
		return sim.Op{K: "p.pbreak", I: []int{p}}, true
	case 13:
		return sim.Op{K: "p.style", I: []int{p}, S: []sim.Str{g.str(r.Pick("Normal", "Heading1", "Heading2", "Quote", "Title", "CodeBlock"))}}, true
	default:
		return sim.Op{K: "p.format", I: []int{p, r.Intn(20), r.Intn(20), r.Intn(30), r.Intn(64), r.Range(0, 8)},
			S: []sim.Str{g.str(r.Pick("", "left", "center", "right", "both")), g.str(r.Pick("", "", "Heading1", "Normal"))},
			F: []float64{[]float64{0, 1, 1.5, 2}[r.Intn(4)], float64(r.Range(-10, 20)) / 10, float64(r.Intn(30)) / 10, float64(r.Intn(30)) / 10}}, true
	}
}

func (g *Gen) cells(n int) []sim.Str {
	var out []sim.Str
	for i := 0; i < n; i++ {
		out = append(out, g.str(g.Text()))
	}
	return out
}

func (g *Gen) opTable() (sim.Op, bool) {
	r := g.R
	if g.ntables == 0 || r.Chance(0.15) || g.TableNewOnly {
		rows, cols := r.Range(1, g.MaxRows), r.Range(1, g.MaxCols)
		g.ntables++
		op := sim.Op{K: "t.new", I: []int{rows, cols, []int{0, 5000, 9000}[r.Intn(3)], r.Intn(2), r.Intn(2)}}
		if g.TableNewOnly {
			op.I[4] = 1
		}
		if op.I[4] != 0 {
			op.S = g.cells(rows * cols)
		}
		return op, true
	}
	t := r.Intn(g.ntables)
	rc := func() (int, int) { return r.Range(-1, g.MaxRows+1), r.Range(-1, g.MaxCols+1) }
	a, b := rc()
	structural := !(g.RectTablesOnly && g.merged[t])
	switch r.Intn(14) {
	case 0:
		return sim.Op{K: "t.settext", I: []int{t, a, b}, S: []sim.Str{g.str(g.Text())}}, true
	case 1:
		op := sim.Op{K: "t.setftext", I: []int{t, a, b}, S: []sim.Str{g.str(g.Text())}}
		g.format(&op)
		op.I = append(op.I, btoi(r.Chance(0.1)))
		return op, true
	case 2:
		op := sim.Op{K: "t.addftext", I: []int{t, a, b}, S: []sim.Str{g.str(g.Text())}}
		g.format(&op)
		op.I = append(op.I, btoi(r.Chance(0.1)))
		return op, true
	case 3:
		if !structural {
			return sim.Op{}, false
		}
		return sim.Op{K: "t.insrow", I: []int{t, a}, S: g.cells(r.Intn(g.MaxCols + 1))}, true
	case 4:
		if !structural {
			return sim.Op{}, false
		}
		return sim.Op{K: "t.approw", I: []int{t}, S: g.cells(r.Intn(g.MaxCols + 1))}, true
	case 5:
		if !structural {
			return sim.Op{}, false
		}
		return sim.Op{K: r.Pick("t.delrow", "t.delcol"), I: []int{t, a}}, true
	case 6:
		if !structural {
			return sim.Op{}, false
		}
		return sim.Op{K: "t.inscol", I: []int{t, b, r.Range(0, 3000)}, S: g.cells(r.Intn(g.MaxRows + 1))}, true
	case 7:
		if !structural {
			return sim.Op{}, false
		}
		return sim.Op{K: "t.appcol", I: []int{t, 0, r.Range(0, 3000)}, S: g.cells(r.Intn(g.MaxRows + 1))}, true
	case 8:
		g.merged[t] = true
		return sim.Op{K: "t.mergeh", I: []int{t, a, b, b + r.Range(0, 2)}}, true
	case 9:
		g.merged[t] = true
		return sim.Op{K: "t.mergev", I: []int{t, a, a + r.Range(0, 2), b}}, true
	case 10:
		return sim.Op{K: "t.addpara", I: []int{t, a, b}, S: []sim.Str{g.str(g.Text())}}, true
	case 11:
		g.nnested++
		return sim.Op{K: "t.nested", I: []int{t, a, b, r.Range(1, 2), r.Range(1, 2), 3000, 0, 0}}, true
	case 12:
		if g.NoCellList {
			return sim.Op{}, false
		}
		return sim.Op{K: "t.celllist", I: []int{t, a, b}, S: append([]sim.Str{g.str(listTypes[r.Intn(len(listTypes))]), g.str(bullets[r.Intn(len(bullets))])}, g.cells(r.Range(1, 3))...)}, true
	default:
		return sim.Op{K: "t.clearcell", I: []int{t, a, b}}, true
	}
}

func (g *Gen) opTableFmt() (sim.Op, bool) {
	r := g.R
	if g.ntables == 0 {
		return sim.Op{}, false
	}
	t := r.Intn(g.ntables)
	a, b := r.Range(0, g.MaxRows), r.Range(0, g.MaxCols)
	if g.Extra && r.Chance(0.25) {
		switch r.Intn(4) {
		case 0:
			return sim.Op{K: "t.layout", I: []int{t, r.Intn(5), r.Intn(2), r.Intn(2)}}, true
		case 1:
			return sim.Op{K: "t.pagebreak", I: []int{t, r.Intn(16)}}, true
		case 2:
			return sim.Op{K: "t.rowheightrange", I: []int{t, a, a + r.Intn(3), r.Range(5, 80)}, S: []sim.Str{g.str(r.Pick("auto", "atLeast", "exact"))}}, true
		default:
			return sim.Op{K: "t.rmcellborders", I: []int{t, a, b}}, true
		}
	}
	switch r.Intn(12) {
	case 0:
		op := sim.Op{K: "t.cellfmt", I: []int{t, a, b}, S: []sim.Str{g.str(r.Pick("", "left", "center", "right")), g.str(r.Pick("", "top", "center", "bottom")), g.str(r.Pick("", "lrTb", "tbRl", "btLr")), g.str(r.Pick("", "FFFF00", "EEEEEE"))}}
		g.format(&op)
		op.I = append(op.I, btoi(r.Chance(0.2)), r.Intn(10))
		return op, true
	case 1:
		return sim.Op{K: "t.padding", I: []int{t, a, b, r.Intn(20)}}, true
	case 2:
		return sim.Op{K: "t.rowheight", I: []int{t, a, r.Range(5, 80)}, S: []sim.Str{g.str(r.Pick("auto", "atLeast", "exact"))}}, true
	case 3:
		return sim.Op{K: "t.rowheader", I: []int{t, a, r.Intn(2)}}, true
	case 4:
		return sim.Op{K: "t.align", I: []int{t}, S: []sim.Str{g.str(r.Pick("left", "center", "right"))}}, true
	case 5:
		if g.NoTableTemplates {
			return sim.Op{K: "t.style", I: []int{t, r.Intn(64)}, S: []sim.Str{g.str(""), g.str(r.Pick("ab", "a1"))}}, true
		}
		return sim.Op{K: "t.style", I: []int{t, r.Intn(64)}, S: []sim.Str{g.str(r.Pick("TableGrid", "TablePlain1", "TableNormal", "")), g.str(r.Pick("", "ab"))}}, true
	case 6:
		return sim.Op{K: "t.borders", I: []int{t, r.Range(1, 12), r.Intn(3)}, S: []sim.Str{g.str(borders[r.Intn(len(borders))]), g.str(colors[r.Intn(4)])}}, true
	case 7:
		return sim.Op{K: "t.shading", I: []int{t}, S: []sim.Str{g.str(r.Pick("clear", "solid", "pct10")), g.str(colors[r.Intn(4)]), g.str(colors[r.Intn(4)])}}, true
	case 8:
		return sim.Op{K: "t.cellborders", I: []int{t, a, b, r.Range(1, 12), r.Intn(3)}, S: []sim.Str{g.str(borders[r.Intn(len(borders))]), g.str(colors[r.Intn(4)])}}, true
	case 9:
		return sim.Op{K: "t.cellshading", I: []int{t, a, b}, S: []sim.Str{g.str(r.Pick("clear", "solid")), g.str(colors[r.Intn(4)]), g.str(colors[r.Intn(4)])}}, true
	case 10:
		return sim.Op{K: "t.keeptogether", I: []int{t, a, r.Intn(2)}}, true
	default:
		return sim.Op{K: "t.textdir", I: []int{t, a, b}, S: []sim.Str{g.str(r.Pick("lrTb", "tbRl", "btLr"))}}, true
	}
}

// ImageName picks an original file name for an image of the given format index.
func (g *Gen) ImageName(fmtIdx int) string {
	r := g.R
	ext := []string{".png", ".jpeg", ".gif"}[fmtIdx]
	if g.NoJPGName {
		return r.Pick("pic", "图片", "a b", "IMAGE", "x.y") + ext
	}
	switch r.Intn(8) {
	case 0:
		return "photo.jpg"
	case 1:
		return "PHOTO" + []string{".PNG", ".JPG", ".GIF"}[fmtIdx]
	case 2:
		return "noext"
	case 3:
		return "wrong" + []string{".gif", ".png", ".jpeg"}[fmtIdx]
	case 4:
		return "图片" + ext
	case 5:
		return "same" + ext
	case 6:
		return "a.tar" + ext
	default:
		return "img" + ext
	}
}

func (g *Gen) opImage() (sim.Op, bool) {
	r := g.R
	if g.Extra && g.nimages > 0 && r.Chance(0.3) {
		if r.Bool() {
			return sim.Op{K: "img.pos", I: []int{r.Intn(16), r.Intn(3)}, F: []float64{float64(r.Range(-5, 40)), float64(r.Range(-5, 40))}}, true
		}
		return sim.Op{K: "img.wrap", I: []int{r.Intn(16), r.Intn(4)}}, true
	}
	f := r.Intn(3)
	g.nimages++
	g.tag++
	op := sim.Op{K: "img", I: []int{f, r.Range(1, 48), r.Range(1, 48), g.tag*7919 + r.Intn(1000), []int{0, 1, 2, 3, 4, 9}[r.Intn(6)], r.Intn(4), r.Intn(5), r.Intn(4)},
		F: []float64{float64(r.Range(5, 150)), float64(r.Range(5, 150)), float64(r.Intn(20)), float64(r.Intn(20))},
		S: []sim.Str{g.str(g.ImageName(f)), g.str(g.PlainText()), g.str(g.PlainText())}}
	if r.Chance(0.5) {
		// the size object is kept by the caller and used again whenever the same size is wanted; some pictures ask for the
		// size of the previous such picture
		if g.lastImgCfg != nil && r.Chance(0.5) {
			op.I[4] = g.lastImgCfg.I[4]
			copy(op.F[0:2], g.lastImgCfg.F[0:2])
		}
		op.F = append(op.F, 1)
		cp := op
		g.lastImgCfg = &cp
	}
	if g.BigImages && r.Chance(0.3) {
		op.I[0], op.I[1], op.I[2] = 0, r.Range(150, 190), r.Range(150, 190) // PNG noise: about 3 bytes per pixel
	}
	if g.ntables > 0 && r.Chance(0.25) && !g.NoCellImage {
		op.K = "cellimg"
		op.I = append(op.I, r.Intn(g.ntables), r.Range(0, g.MaxRows-1), r.Range(0, g.MaxCols-1))
		if g.nnested > 0 && r.Chance(0.4) { // into a cell of a nested table
			op.I[8], op.I[9], op.I[10] = 1000+r.Intn(8), r.Intn(2), r.Intn(2)
		}
		if op.I[4] > 3 {
			op.I[4] = 0
		}
	}
	return op, true
}

func (g *Gen) opHF() (sim.Op, bool) {
	r := g.R
	kind := hfKinds[r.Intn(3)]
	which := r.Pick("hdr", "ftr", "hdrpn", "ftrpn", "fhdr", "fftr")
	side := "h"
	if which[0] == 'f' && which != "fhdr" {
		side = "f"
	}
	// HFOncePerKind was the lane-A constraint of the finding hf-duplicate-reference; that finding
	// is fixed (KNOWN_FINDINGS.txt), so the constraint is off: kinds are set repeatedly everywhere.
	_ = side
	op := sim.Op{K: which, S: []sim.Str{g.str(kind), g.str(g.Text())}}
	switch which {
	case "hdrpn", "ftrpn":
		op.I = []int{r.Intn(2)}
	case "fhdr", "fftr":
		op.S = append(op.S, g.str(r.Pick("", "left", "center", "right")))
		g.format(&op)
		op.I = append(op.I, btoi(r.Chance(0.15)), 0)
	}
	return op, true
}

func (g *Gen) opPage() (sim.Op, bool) {
	r := g.R
	switch r.Intn(7) {
	case 0:
		return sim.Op{K: "pg.size", S: []sim.Str{g.str(pageSizes[r.Intn(len(pageSizes))])}}, true
	case 1:
		return sim.Op{K: "pg.margins", F: []float64{float64(r.Range(0, 50)), float64(r.Range(0, 50)), float64(r.Range(0, 50)), float64(r.Range(0, 50))}}, true
	case 2:
		return sim.Op{K: "pg.orient", S: []sim.Str{g.str(r.Pick("portrait", "landscape"))}}, true
	case 3:
		return sim.Op{K: "pg.hfdist", F: []float64{float64(r.Range(0, 30)), float64(r.Range(0, 30))}}, true
	case 4:
		return sim.Op{K: "pg.gutter", F: []float64{float64(r.Range(0, 20))}}, true
	case 5:
		return sim.Op{K: "pg.grid", S: []sim.Str{g.str(r.Pick("default", "lines", "snapToChars", "snapToLines"))}, I: []int{r.Range(0, 600), r.Range(0, 100)}}, true
	default:
		return sim.Op{K: "difffirst", I: []int{r.Intn(2)}}, true
	}
}

func (g *Gen) opList() (sim.Op, bool) {
	r := g.R
	if g.Extra && r.Chance(0.2) {
		n := r.Range(1, 4)
		op := sim.Op{K: "mllist"}
		for i := 0; i < n; i++ {
			g.nparas++
			op.S = append(op.S, g.str(g.Text()), g.str(listTypes[r.Intn(len(listTypes))]), g.str(bullets[r.Intn(len(bullets))]))
			op.I = append(op.I, r.Range(0, 3), r.Range(0, 2))
		}
		return op, true
	}
	g.nparas++
	return sim.Op{K: "li", S: []sim.Str{g.str(g.Text()), g.str(listTypes[r.Intn(len(listTypes))]), g.str(bullets[r.Intn(len(bullets))])}, I: []int{r.Range(0, 1), r.Range(0, 8), 0}}, true
}

func (g *Gen) opNote() (sim.Op, bool) {
	r := g.R
	if g.Extra && g.nparas > 0 && r.Chance(0.25) {
		return sim.Op{K: "fnrun", I: []int{r.Intn(64)}, S: []sim.Str{g.str(g.Text())}}, true
	}
	g.nparas++
	return sim.Op{K: r.Pick("fn", "en"), S: []sim.Str{g.str(g.Text()), g.str(g.Text())}}, true
}

func (g *Gen) opTOC() (sim.Op, bool) {
	r := g.R
	if g.Extra && r.Chance(0.25) {
		op := sim.Op{K: "toc.style", I: []int{r.Range(0, 10)}}
		g.format(&op)
		return op, true
	}
	return sim.Op{K: r.Pick("toc.gen", "toc.update", "toc.auto"), S: []sim.Str{g.str(g.PlainText())}, I: []int{r.Range(1, 9), r.Intn(16)}}, true
}

func (g *Gen) opProp() (sim.Op, bool) {
	r := g.R
	return sim.Op{K: "prop", S: []sim.Str{g.str(r.Pick("title", "author", "subject", "keywords", "description", "category", "stats", "all")), g.str(g.Text())}}, true
}

// opStyle creates, uses or removes a custom style.
func (g *Gen) opStyle() (sim.Op, bool) {
	r := g.R
	if g.StyleEdits && r.Chance(0.35) {
		id := r.Pick("Normal", "Heading1", "Heading2", "Heading3", "Title", "Quote")
		if len(g.styles) > 0 && r.Chance(0.3) {
			id = g.styles[r.Intn(len(g.styles))]
		}
		return sim.Op{K: "style.edit", S: []sim.Str{g.str(id), g.str(r.Pick("FF0000", "00AA00", "123456", "New Name", "x"))}, I: []int{r.Intn(6)}}, true
	}
	switch {
	case len(g.styles) == 0 || r.Chance(0.4):
		g.tag++
		id := fmt.Sprintf([]string{"Custom%d", "Custom%d", "My Style %d", "Body.Text(%d)", "样式%d", "a-b_%d"}[r.Intn(6)], g.tag)
		if g.SharedStyleIDs && r.Chance(0.6) {
			// the id another document of this run is likely to define too - based on something else
			id = r.Pick("Section", "Callout", "BodyX")
			g.styles = append(g.styles, id)
			return sim.Op{K: "style.add", S: []sim.Str{g.str(id), g.str("custom " + id), g.str("paragraph"), g.str(r.Pick("Heading1", "Heading2", "Heading3", "Normal", "Title"))}}, true
		}
		g.styles = append(g.styles, id)
		typ := r.Pick("paragraph", "paragraph", "character")
		if r.Bool() {
			return sim.Op{K: "style.add", S: []sim.Str{g.str(id), g.str("custom " + id), g.str(typ), g.str(r.Pick("", "Normal", "Heading1"))}}, true
		}
		return sim.Op{K: "style.quick", S: []sim.Str{g.str(id), g.str("quick " + id), g.str(typ), g.str(r.Pick("", "Normal"))}, I: []int{r.Intn(2), r.Range(8, 30), r.Intn(2)}}, true
	case r.Chance(0.75) && g.nparas > 0:
		return sim.Op{K: "p.style", I: []int{r.Intn(64)}, S: []sim.Str{g.str(g.styles[r.Intn(len(g.styles))])}}, true
	case g.AllowStyleRemoval:
		i := r.Intn(len(g.styles))
		id := g.styles[i]
		g.styles = append(g.styles[:i], g.styles[i+1:]...)
		return sim.Op{K: "style.rm", S: []sim.Str{g.str(id)}}, true
	}
	return sim.Op{}, false
}

// opMath adds a formula. WellFormedMath restricts the content to well-formed
// OMML fragments (the documented use); otherwise arbitrary text is passed.
func (g *Gen) opMath() (sim.Op, bool) {
	r := g.R
	if g.Extra && g.WellFormedMath && g.nparas > 0 && r.Chance(0.3) {
		g.tag++
		return sim.Op{K: "p.inlinemath", I: []int{r.Intn(64)}, S: []sim.Str{g.str(fmt.Sprintf("<m:r><m:t>y%d</m:t></m:r>", g.tag))}}, true
	}
	if g.WellFormedMath {
		g.tag++
		return sim.Op{K: "math", S: []sim.Str{g.str(fmt.Sprintf("<m:r><m:t>x%d</m:t></m:r>", g.tag))}, I: []int{r.Intn(2)}}, true
	}
	if r.Chance(0.4) {
		return sim.Op{K: "math", S: []sim.Str{g.str(r.Pick("</x><x>", "</m:oMath><m:oMath>", "<a>", "</a>", "<m:r><m:t>x</m:t>", "a<b", "x & y", "<m:r/></m:oMathPara>", "<!-- c", "<![CDATA[", "&#0;", "<m:r xmlns:m=\"u\"/>"))}, I: []int{r.Intn(2)}}, true
	}
	return sim.Op{K: "math", S: []sim.Str{g.str(g.Text())}, I: []int{r.Intn(2)}}, true
}

func (g *Gen) opRemove() (sim.Op, bool) {
	r := g.R
	switch r.Intn(3) {
	case 0:
		return sim.Op{K: "rm.para", I: []int{r.Intn(64), []int{0, 0, 0, 1, 2}[r.Intn(5)]}}, true
	case 1:
		return sim.Op{K: "rm.parai", I: []int{r.Range(-2, 12)}}, true
	default:
		return sim.Op{K: "rm.elem", I: []int{r.Range(-2, 12)}}, true
	}
}

// Markdown generates a Markdown source (a producer of documents). Lists use
// the process-wide numbering registry, so they are optional.
func (g *Gen) Markdown(lists bool) string {
	r := g.R
	var sb []byte
	add := func(s string) { sb = append(sb, s...) }
	n := r.Range(2, 8)
	for i := 0; i < n; i++ {
		switch x := r.Intn(10); {
		case x == 0:
			add("# " + g.PlainText() + "\n\n")
		case x == 1:
			add("### " + g.PlainText() + " *em* **strong**\n\n")
		case x == 2:
			add("> quote " + g.PlainText() + "\n\n")
		case x == 3:
			add("```\ncode " + g.PlainText() + "\n  indented\n```\n\n")
		case x == 4:
			add("| a | b |\n|---|:-:|\n| " + g.PlainText() + " | 2 |\n\n")
		case x == 5 && lists:
			add("- item " + g.PlainText() + "\n- [x] task\n  1. nested\n\n")
		case x == 6:
			add("inline `code` ~~gone~~ [link](http://example.com) $x^2$\n\n")
		case x == 7:
			// reference-style links: a label may be defined in this source, or only used
			lbl := r.Pick("ref1", "ref2", "doc")
			add("see [" + lbl + "] and [" + lbl + "][]\n\n")
			if r.Bool() {
				add("[" + lbl + "]: http://example.com/" + g.PlainText() + "\n\n")
			}
		case x == 8:
			add("---\n\n")
		case x == 9 && g.Extra:
			// pictures by relative path (with and without alternative text): resolved against the directory of the source file
			add("![](pic.png) and ![" + r.Pick("", "alt "+g.PlainText()) + "](img/" + r.Pick("a", "b") + ".png)\n\n")
		default:
			add(g.Text() + " plain paragraph\nsoft break\n\n")
		}
	}
	return string(sb)
}
