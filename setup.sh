#!/bin/sh
# Build the orchestrator and tools from files on disk only, then build and cache
# the simulation workers for /repo's current working tree (offline).
set -e
cd "$(dirname "$0")"
. ./env.sh
mkdir -p bin evidence replays
go build -o bin/check ./cmd/check
go build -o bin/instrument ./cmd/instrument
./bin/check build
