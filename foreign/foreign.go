// Package foreign is the "other producer" of the simulation: a small,
// independent writer of well-formed WordprocessingML packages the way Word,
// LibreOffice or docx4j emit them — arbitrary namespace prefixes, extra parts
// with their own relationships, external hyperlinks, runs nested in
// hyperlinks / smart tags / tracked insertions / content controls, media with
// unusual names, relationship ids of any pattern. It never calls the library.
package foreign

import (
	"archive/zip"
	"bytes"
	"fmt"
	"sort"
	"strings"

	"verif/sim"
)

// Feature bits.
const (
	FExtraParts    = 1 << iota // theme, fontTable, webSettings, settings
	FCustomXML                 // customXml item with its own rels
	FNumbering                 // numbering part + list paragraphs
	FHeaderMedia               // header/footer with own .rels and media
	FHyperlink                 // external hyperlink relationship + w:hyperlink runs
	FNestedRuns                // runs inside smartTag / ins / sdt / fldSimple
	FBodyImages                // pictures with unusual media names
	FSparseIDs                 // non-contiguous relationship ids
	FOddIDs                    // ids that are not rId<n>
	FStylesNotRId1             // rId1 is the theme, styles has another id
	FNoStyles                  // no styles part / relationship at all
	FUpperExt                  // extension defaults in upper case
	FTables                    // tables (with tblGrid)
	FComments                  // comments part
	FDocProps                  // docProps/core.xml + app.xml
	FSectPr                    // section properties with page size/margins
	FAllBits       = 1<<iota - 1
)

// Result describes what was produced, for the oracles.
type Result struct {
	Bytes     []byte
	Parts     map[string][]byte
	RunTexts  []string // every w:t text of the main part, in document order
	MediaMain []string // media parts referenced from the main part
	Prefix    string
}

type builder struct {
	r      *sim.Rand
	flags  int
	pfx    string // "w:" / "ns0:" / "" (default namespace)
	tag    int
	ctx    string // suffix of text tags generated right now
	texts  []string
	parts  map[string][]byte
	order  []string
	docRel []rel
	ids    []string
	nextID int
	ovr    map[string]string
	defs   map[string][2]string // lower-case extension -> (extension as written, content type)
	upper  bool
}

type rel struct{ id, typ, target, mode string }

const (
	nsW   = "http://schemas.openxmlformats.org/wordprocessingml/2006/main"
	nsR   = "http://schemas.openxmlformats.org/officeDocument/2006/relationships"
	nsRel = "http://schemas.openxmlformats.org/package/2006/relationships"
)

// def registers an extension default (extensions are case-insensitive).
func (b *builder) def(ext, ctype string) {
	lo := strings.ToLower(ext)
	if _, ok := b.defs[lo]; ok {
		return
	}
	w := lo
	if b.upper {
		w = strings.ToUpper(lo)
	}
	b.defs[lo] = [2]string{w, ctype}
}

func (b *builder) put(name string, data string) {
	if _, ok := b.parts[name]; !ok {
		b.order = append(b.order, name)
	}
	b.parts[name] = []byte(data)
}

func (b *builder) text() string {
	b.tag++
	words := []string{"Lorem", "ipsum", "dolor", " sit ", "amet", "Ünïcode", "中文", "a&b", "x<y", "  two  spaces"}
	s := fmt.Sprintf("%s⟪%d%s⟫", words[b.r.Intn(len(words))], b.tag, b.ctx)
	b.texts = append(b.texts, s)
	return s
}

// in generates runs whose text tags name the element they are nested in
// (":hyperlink", ":ins", ...), so that an oracle can say where a lost text was.
func (b *builder) in(ctx string, f func() string) string {
	b.ctx = ":" + ctx
	defer func() { b.ctx = "" }()
	return f()
}

func esc(s string) string {
	s = strings.ReplaceAll(s, "&", "&amp;")
	s = strings.ReplaceAll(s, "<", "&lt;")
	s = strings.ReplaceAll(s, ">", "&gt;")
	s = strings.ReplaceAll(s, "\"", "&quot;")
	return s
}

// w returns a qualified WordprocessingML element name.
func (b *builder) w(local string) string { return b.pfx + local }

// wa returns a qualified WordprocessingML attribute name. Attributes need a
// prefix even when elements use the default namespace.
func (b *builder) wa(local string) string {
	if b.pfx == "" {
		return "wx:" + local
	}
	return b.pfx + local
}

func (b *builder) run(props string) string {
	t := b.text()
	sp := ""
	if strings.HasPrefix(t, " ") || strings.HasSuffix(t, " ") || strings.Contains(t, "  ") {
		sp = ` xml:space="preserve"`
	}
	return fmt.Sprintf("<%s>%s<%s%s>%s</%s></%s>", b.w("r"), props, b.w("t"), sp, esc(t), b.w("t"), b.w("r"))
}

func (b *builder) rpr() string {
	switch b.r.Intn(4) {
	case 0:
		return fmt.Sprintf("<%s><%s/></%s>", b.w("rPr"), b.w("b"), b.w("rPr"))
	case 1:
		return fmt.Sprintf("<%s><%s/><%s %s=\"FF0000\"/></%s>", b.w("rPr"), b.w("i"), b.w("color"), b.wa("val"), b.w("rPr"))
	}
	return ""
}

func (b *builder) newID() string {
	b.nextID++
	switch {
	case b.flags&FOddIDs != 0:
		return []string{"R", "rel", "id", "Rc"}[b.nextID%4] + fmt.Sprintf("%x", b.nextID*7)
	case b.flags&FSparseIDs != 0:
		// 7, 3, 12, 5, 20 … never dense, never starting at 2
		seq := []int{7, 3, 12, 5, 20, 9, 31, 4, 15, 40, 6, 50, 8, 60, 10, 70}
		if b.nextID-1 < len(seq) {
			return fmt.Sprintf("rId%d", seq[b.nextID-1])
		}
		return fmt.Sprintf("rId%d", 100+b.nextID)
	}
	return fmt.Sprintf("rId%d", b.nextID)
}

func (b *builder) addRel(typ, target, mode string) string {
	id := b.newID()
	b.docRel = append(b.docRel, rel{id, typ, target, mode})
	return id
}

func relsXML(rs []rel) string {
	var s strings.Builder
	s.WriteString(`<?xml version="1.0" encoding="UTF-8" standalone="yes"?>` + "\n" + `<Relationships xmlns="` + nsRel + `">`)
	for _, r := range rs {
		fmt.Fprintf(&s, `<Relationship Id="%s" Type="%s" Target="%s"`, r.id, r.typ, esc(r.target))
		if r.mode != "" {
			fmt.Fprintf(&s, ` TargetMode="%s"`, r.mode)
		}
		s.WriteString("/>")
	}
	s.WriteString("</Relationships>")
	return s.String()
}

// tiny valid PNG (1x1) with a unique trailing tEXt-less variation: we vary bytes after IEND? No:
// keep a valid file and make it unique by a private ancillary chunk.
func pngBytes(seed int) []byte {
	base := []byte{0x89, 'P', 'N', 'G', 0x0d, 0x0a, 0x1a, 0x0a, 0, 0, 0, 0x0d, 'I', 'H', 'D', 'R', 0, 0, 0, 1, 0, 0, 0, 1, 8, 2, 0, 0, 0, 0x90, 0x77, 0x53, 0xde,
		0, 0, 0, 0x0c, 'I', 'D', 'A', 'T', 0x08, 0xd7, 0x63, 0xf8, 0xcf, 0xc0, 0, 0, 3, 1, 1, 0, 0x18, 0xdd, 0x8d, 0xb0, 0, 0, 0, 0, 'I', 'E', 'N', 'D', 0xae, 0x42, 0x60, 0x82}
	return append(base, []byte(fmt.Sprintf("uniq%08d", seed))...)
}

// Build produces a package from a seed and feature flags.
func Build(seed uint64, flags int) *Result {
	r := sim.NewRand(seed)
	b := &builder{r: r, flags: flags, parts: map[string][]byte{}, ovr: map[string]string{}, defs: map[string][2]string{}}
	b.pfx = []string{"w:", "w:", "ns0:", ""}[r.Intn(4)]
	xmlExt, relsExt, pngExt := "xml", "rels", "png"
	// part names stay lower-case (the _rels/….rels naming convention is matched
	// literally by every consumer); FUpperExt only changes how the Default
	// extensions are spelled in [Content_Types].xml, which is case-insensitive
	b.upper = flags&FUpperExt != 0
	b.def("rels", "application/vnd.openxmlformats-package.relationships+xml")
	b.def("xml", "application/xml")
	_ = xmlExt
	b.ovr["/word/document.xml"] = "application/vnd.openxmlformats-officedocument.wordprocessingml.document.main+xml"

	// ---- document relationships, in an order that makes "rId1 = styles" false when asked
	var styleID string
	if flags&FStylesNotRId1 != 0 || flags&FExtraParts != 0 {
		if flags&FStylesNotRId1 != 0 {
			b.addRel(nsR+"/theme", "theme/theme1.xml", "")
			b.put("word/theme/theme1.xml", `<?xml version="1.0" encoding="UTF-8"?><a:theme xmlns:a="http://schemas.openxmlformats.org/drawingml/2006/main" name="Office"><a:themeElements/></a:theme>`)
			b.ovr["/word/theme/theme1.xml"] = "application/vnd.openxmlformats-officedocument.theme+xml"
		}
	}
	if flags&FNoStyles == 0 {
		styleID = b.addRel(nsR+"/styles", "styles.xml", "")
		_ = styleID
		b.put("word/styles.xml", `<?xml version="1.0" encoding="UTF-8" standalone="yes"?><w:styles xmlns:w="`+nsW+`"><w:docDefaults><w:rPrDefault><w:rPr><w:sz w:val="21"/></w:rPr></w:rPrDefault></w:docDefaults>`+
			`<w:style w:type="paragraph" w:default="1" w:styleId="Normal"><w:name w:val="Normal"/></w:style>`+
			`<w:style w:type="paragraph" w:styleId="ForeignHeading"><w:name w:val="foreign heading"/><w:basedOn w:val="Normal"/><w:pPr><w:keepNext/><w:outlineLvl w:val="0"/></w:pPr><w:rPr><w:b/><w:sz w:val="32"/></w:rPr></w:style>`+
			`<w:style w:type="character" w:styleId="ForeignEmph"><w:name w:val="foreign emph"/><w:rPr><w:i/></w:rPr></w:style>`+
			`<w:style w:type="table" w:styleId="ForeignGrid"><w:name w:val="foreign grid"/></w:style></w:styles>`)
		b.ovr["/word/styles.xml"] = "application/vnd.openxmlformats-officedocument.wordprocessingml.styles+xml"
	}
	if flags&FExtraParts != 0 {
		if flags&FStylesNotRId1 == 0 {
			b.addRel(nsR+"/theme", "theme/theme1.xml", "")
			b.put("word/theme/theme1.xml", `<?xml version="1.0" encoding="UTF-8"?><a:theme xmlns:a="http://schemas.openxmlformats.org/drawingml/2006/main" name="Office"><a:themeElements/></a:theme>`)
			b.ovr["/word/theme/theme1.xml"] = "application/vnd.openxmlformats-officedocument.theme+xml"
		}
		if r.Bool() { // Word 2010+: a second style part with its own (Microsoft) relationship type
			b.addRel("http://schemas.microsoft.com/office/2007/relationships/stylesWithEffects", "stylesWithEffects.xml", "")
			b.put("word/stylesWithEffects.xml", `<?xml version="1.0" encoding="UTF-8"?><w:styles xmlns:w="`+nsW+`"><w:style w:type="paragraph" w:styleId="Normal"><w:name w:val="Normal"/></w:style></w:styles>`)
			b.ovr["/word/stylesWithEffects.xml"] = "application/vnd.ms-word.stylesWithEffects+xml"
		}
		b.addRel(nsR+"/fontTable", "fontTable.xml", "")
		b.put("word/fontTable.xml", `<?xml version="1.0" encoding="UTF-8"?><w:fonts xmlns:w="`+nsW+`"><w:font w:name="Calibri"><w:panose1 w:val="020F0502020204030204"/></w:font></w:fonts>`)
		b.ovr["/word/fontTable.xml"] = "application/vnd.openxmlformats-officedocument.wordprocessingml.fontTable+xml"
		b.addRel(nsR+"/webSettings", "webSettings.xml", "")
		b.put("word/webSettings.xml", `<?xml version="1.0" encoding="UTF-8"?><w:webSettings xmlns:w="`+nsW+`"><w:optimizeForBrowser/></w:webSettings>`)
		b.ovr["/word/webSettings.xml"] = "application/vnd.openxmlformats-officedocument.wordprocessingml.webSettings+xml"
		b.addRel(nsR+"/settings", "settings.xml", "")
		b.put("word/settings.xml", `<?xml version="1.0" encoding="UTF-8"?><w:settings xmlns:w="`+nsW+`"><w:zoom w:percent="120"/><w:defaultTabStop w:val="708"/><w:compat><w:compatSetting w:name="compatibilityMode" w:uri="http://schemas.microsoft.com/office/word" w:val="15"/></w:compat></w:settings>`)
		b.ovr["/word/settings.xml"] = "application/vnd.openxmlformats-officedocument.wordprocessingml.settings+xml"
	}
	numID := ""
	if flags&FNumbering != 0 {
		b.addRel(nsR+"/numbering", "numbering.xml", "")
		b.put("word/numbering.xml", `<?xml version="1.0" encoding="UTF-8"?><w:numbering xmlns:w="`+nsW+`"><w:abstractNum w:abstractNumId="17"><w:multiLevelType w:val="hybridMultilevel"/><w:lvl w:ilvl="0"><w:start w:val="3"/><w:numFmt w:val="upperRoman"/><w:lvlText w:val="%1)"/><w:lvlJc w:val="left"/></w:lvl></w:abstractNum><w:num w:numId="23"><w:abstractNumId w:val="17"/></w:num></w:numbering>`)
		b.ovr["/word/numbering.xml"] = "application/vnd.openxmlformats-officedocument.wordprocessingml.numbering+xml"
		numID = "23"
	}
	if flags&FComments != 0 {
		b.addRel(nsR+"/comments", "comments.xml", "")
		b.put("word/comments.xml", `<?xml version="1.0" encoding="UTF-8"?><w:comments xmlns:w="`+nsW+`"><w:comment w:id="0" w:author="someone"><w:p><w:r><w:t>a comment</w:t></w:r></w:p></w:comment></w:comments>`)
		b.ovr["/word/comments.xml"] = "application/vnd.openxmlformats-officedocument.wordprocessingml.comments+xml"
	}
	if flags&FCustomXML != 0 {
		b.addRel(nsR+"/customXml", "../customXml/item1.xml", "")
		b.put("customXml/item1.xml", `<?xml version="1.0" encoding="UTF-8"?><root xmlns="urn:example:custom"><field>value</field></root>`)
		b.put("customXml/itemProps1.xml", `<?xml version="1.0" encoding="UTF-8"?><ds:datastoreItem xmlns:ds="http://schemas.openxmlformats.org/officeDocument/2006/customXml" ds:itemID="{11111111-2222-3333-4444-555555555555}"/>`)
		b.put("customXml/_rels/item1.xml."+relsExt, relsXML([]rel{{"rId1", nsR + "/customXmlProps", "itemProps1.xml", ""}}))
		b.ovr["/customXml/itemProps1.xml"] = "application/vnd.openxmlformats-officedocument.customXmlProperties+xml"
	}

	// ---- body
	var body strings.Builder
	para := func(inner string, ppr string) {
		fmt.Fprintf(&body, "<%s>%s%s</%s>", b.w("p"), ppr, inner, b.w("p"))
	}
	np := r.Range(2, 6)
	var mediaMain []string
	for i := 0; i < np; i++ {
		ppr := ""
		if flags&FNoStyles == 0 && r.Chance(0.3) {
			ppr = fmt.Sprintf("<%s><%s %s=\"ForeignHeading\"/></%s>", b.w("pPr"), b.w("pStyle"), b.wa("val"), b.w("pPr"))
		}
		inner := b.run(b.rpr())
		if r.Bool() {
			inner += b.run(b.rpr())
		}
		para(inner, ppr)
	}
	if flags&FNumbering != 0 {
		para(b.run(""), fmt.Sprintf("<%s><%s><%s %s=\"0\"/><%s %s=\"%s\"/></%s></%s>", b.w("pPr"), b.w("numPr"), b.w("ilvl"), b.wa("val"), b.w("numId"), b.wa("val"), numID, b.w("numPr"), b.w("pPr")))
	}
	if flags&FHyperlink != 0 {
		hid := b.addRel(nsR+"/hyperlink", "https://example.com/a?b=1&c=2", "External")
		first := b.run("")
		link := b.in("hyperlink", func() string { return b.run("") + b.run(b.rpr()) })
		para(first+fmt.Sprintf("<%s r:id=\"%s\">%s</%s>", b.w("hyperlink"), hid, link, b.w("hyperlink"))+b.run(""), "")
	}
	if flags&FNestedRuns != 0 {
		one := func(ctx string) string { return b.in(ctx, func() string { return b.run("") }) }
		para(fmt.Sprintf("<%s %s=\"urn:x\" %s=\"place\">%s</%s>", b.w("smartTag"), b.wa("uri"), b.wa("element"), one("smartTag"), b.w("smartTag"))+
			fmt.Sprintf("<%s %s=\"1\" %s=\"me\">%s</%s>", b.w("ins"), b.wa("id"), b.wa("author"), one("ins"), b.w("ins"))+
			fmt.Sprintf("<%s><%s/><%s>%s</%s></%s>", b.w("sdt"), b.w("sdtPr"), b.w("sdtContent"), one("sdt"), b.w("sdtContent"), b.w("sdt"))+
			fmt.Sprintf("<%s %s=\" PAGE \">%s</%s>", b.w("fldSimple"), b.wa("instr"), one("fldSimple"), b.w("fldSimple")), "")
	}
	if flags&FTables != 0 {
		fmt.Fprintf(&body, "<%s><%s><%s %s=\"ForeignGrid\"/><%s %s=\"0\" %s=\"auto\"/></%s><%s><%s %s=\"2000\"/><%s %s=\"3000\"/></%s>", b.w("tbl"), b.w("tblPr"), b.w("tblStyle"), b.wa("val"), b.w("tblW"), b.wa("w"), b.wa("type"), b.w("tblPr"), b.w("tblGrid"), b.w("gridCol"), b.wa("w"), b.w("gridCol"), b.wa("w"), b.w("tblGrid"))
		if flags&FNoStyles != 0 {
			// without a styles part the table must not reference a style
			s := body.String()
			s = strings.Replace(s, fmt.Sprintf("<%s %s=\"ForeignGrid\"/>", b.w("tblStyle"), b.wa("val")), "", 1)
			body.Reset()
			body.WriteString(s)
		}
		for i := 0; i < 2; i++ {
			fmt.Fprintf(&body, "<%s>", b.w("tr"))
			for j := 0; j < 2; j++ {
				fmt.Fprintf(&body, "<%s><%s><%s %s=\"2000\" %s=\"dxa\"/></%s><%s>%s</%s></%s>", b.w("tc"), b.w("tcPr"), b.w("tcW"), b.wa("w"), b.wa("type"), b.w("tcPr"), b.w("p"), b.run(""), b.w("p"), b.w("tc"))
			}
			fmt.Fprintf(&body, "</%s>", b.w("tr"))
		}
		fmt.Fprintf(&body, "</%s>", b.w("tbl"))
		para(b.run(""), "")
	}
	// media types as other producers spell them (own stream): what a part's content type is must survive, whatever the library
	// would have written itself
	mt := sim.NewRand(seed ^ 0x6d74797065)
	pngType := []string{"image/png", "image/png", "image/png", "image/x-png"}[mt.Intn(4)]
	oddJPEG := mt.Intn(3) == 0
	if flags&FBodyImages != 0 {
		names := []string{"image1." + pngExt, "image007.png", "picture.png", "IMAGE2.PNG", "image3.png.bak", "图.png", "image0.png"}
		r2 := r.Perm(len(names))
		k := r.Range(1, 3)
		for i := 0; i < k; i++ {
			name := names[r2[i]]
			b.def(name[strings.LastIndex(name, ".")+1:], pngType)
			b.put("word/media/"+name, string(pngBytes(1000+i+int(seed%1000)*10)))
			mediaMain = append(mediaMain, "word/media/"+name)
			id := b.addRel(nsR+"/image", "media/"+name, "")
			para(fmt.Sprintf("<%s><%s><wp:inline distT=\"0\" distB=\"0\" distL=\"0\" distR=\"0\"><wp:extent cx=\"952500\" cy=\"952500\"/><wp:docPr id=\"%d\" name=\"Picture %d\"/><a:graphic><a:graphicData uri=\"http://schemas.openxmlformats.org/drawingml/2006/picture\"><pic:pic><pic:nvPicPr><pic:cNvPr id=\"%d\" name=\"%s\"/><pic:cNvPicPr/></pic:nvPicPr><pic:blipFill><a:blip r:embed=\"%s\"/><a:stretch><a:fillRect/></a:stretch></pic:blipFill><pic:spPr><a:xfrm><a:off x=\"0\" y=\"0\"/><a:ext cx=\"952500\" cy=\"952500\"/></a:xfrm><a:prstGeom prst=\"rect\"><a:avLst/></a:prstGeom></pic:spPr></pic:pic></a:graphicData></a:graphic></wp:inline></%s></%s>",
				b.w("r"), b.w("drawing"), i+1, i+1, i+1, esc(name), id, b.w("drawing"), b.w("r")), "")
		}
	}
	if flags&FBodyImages != 0 && r.Bool() {
		// a JPEG registered the way Word does it: extension "jpg" (or "JPG") for image/jpeg
		ext := r.Pick("jpg", "jpg", "JPG", "jpe")
		jt := "image/jpeg"
		if oddJPEG {
			ext, jt = "jpeg", []string{"image/jpg", "image/pjpeg"}[mt.Intn(2)]
		}
		name := "photo." + ext
		b.def(ext, jt)
		b.put("word/media/"+name, string(append([]byte{0xFF, 0xD8, 0xFF, 0xE0, 0, 0x10, 'J', 'F', 'I', 'F', 0}, []byte(fmt.Sprintf("uniqjpg%08d", seed%100000000))...)))
		mediaMain = append(mediaMain, "word/media/"+name)
		id := b.addRel(nsR+"/image", "media/"+name, "")
		para(fmt.Sprintf("<%s><%s><wp:inline distT=\"0\" distB=\"0\" distL=\"0\" distR=\"0\"><wp:extent cx=\"952500\" cy=\"952500\"/><wp:docPr id=\"77\" name=\"Photo\"/><a:graphic><a:graphicData uri=\"http://schemas.openxmlformats.org/drawingml/2006/picture\"><pic:pic><pic:nvPicPr><pic:cNvPr id=\"77\" name=\"%s\"/><pic:cNvPicPr/></pic:nvPicPr><pic:blipFill><a:blip r:embed=\"%s\"/><a:stretch><a:fillRect/></a:stretch></pic:blipFill><pic:spPr><a:xfrm><a:off x=\"0\" y=\"0\"/><a:ext cx=\"952500\" cy=\"952500\"/></a:xfrm><a:prstGeom prst=\"rect\"><a:avLst/></a:prstGeom></pic:spPr></pic:pic></a:graphicData></a:graphic></wp:inline></%s></%s>",
			b.w("r"), b.w("drawing"), esc(name), id, b.w("drawing"), b.w("r")), "")
	}
	sect := ""
	if flags&FHeaderMedia != 0 {
		// media referenced only from the header's own relationships, possibly under a name the library would choose itself
		logo := r.Pick("logo.png", "image1.png", "image0.png", "image2.png")
		hid := b.addRel(nsR+"/header", "header1.xml", "")
		fid := b.addRel(nsR+"/footer", "footer1.xml", "")
		b.put("word/header1.xml", `<?xml version="1.0" encoding="UTF-8"?><w:hdr xmlns:w="`+nsW+`" xmlns:r="`+nsR+`" xmlns:wp="http://schemas.openxmlformats.org/drawingml/2006/wordprocessingDrawing" xmlns:a="http://schemas.openxmlformats.org/drawingml/2006/main" xmlns:pic="http://schemas.openxmlformats.org/drawingml/2006/picture"><w:p><w:r><w:t>foreign header</w:t></w:r><w:r><w:drawing><wp:inline><wp:extent cx="100" cy="100"/><wp:docPr id="9" name="logo"/><a:graphic><a:graphicData uri="http://schemas.openxmlformats.org/drawingml/2006/picture"><pic:pic><pic:nvPicPr><pic:cNvPr id="9" name="logo"/><pic:cNvPicPr/></pic:nvPicPr><pic:blipFill><a:blip r:embed="rId1"/></pic:blipFill><pic:spPr/></pic:pic></a:graphicData></a:graphic></wp:inline></w:drawing></w:r></w:p></w:hdr>`)
		b.put("word/_rels/header1.xml."+relsExt, relsXML([]rel{{"rId1", nsR + "/image", "media/" + logo + "", ""}}))
		b.put("word/media/"+logo+"", string(pngBytes(7)))
		b.def("png", "image/png")
		b.put("word/footer1.xml", `<?xml version="1.0" encoding="UTF-8"?><w:ftr xmlns:w="`+nsW+`"><w:p><w:r><w:t>foreign footer</w:t></w:r></w:p></w:ftr>`)
		b.ovr["/word/header1.xml"] = "application/vnd.openxmlformats-officedocument.wordprocessingml.header+xml"
		b.ovr["/word/footer1.xml"] = "application/vnd.openxmlformats-officedocument.wordprocessingml.footer+xml"
		// which kind header1.xml / footer1.xml serve, and whether further kinds exist: producers number these parts in the order
		// they were created, not by kind (own stream, so that everything drawn above stays as it was)
		hk := sim.NewRand(seed ^ 0x68656164)
		kinds := [][]string{{"default"}, {"default"}, {"first", "default"}, {"even", "default", "first"}, {"first"}, {"default", "even"}}
		hks, fks := kinds[hk.Intn(len(kinds))], kinds[hk.Intn(len(kinds))]
		sect += fmt.Sprintf("<%s %s=\"%s\" r:id=\"%s\"/><%s %s=\"%s\" r:id=\"%s\"/>", b.w("headerReference"), b.wa("type"), hks[0], hid, b.w("footerReference"), b.wa("type"), fks[0], fid)
		for i, k := range hks[1:] {
			n := fmt.Sprintf("header%d.xml", i+2)
			id := b.addRel(nsR+"/header", n, "")
			b.put("word/"+n, `<?xml version="1.0" encoding="UTF-8"?><w:hdr xmlns:w="`+nsW+`"><w:p><w:r><w:t>foreign `+k+` header</w:t></w:r></w:p></w:hdr>`)
			b.ovr["/word/"+n] = "application/vnd.openxmlformats-officedocument.wordprocessingml.header+xml"
			sect += fmt.Sprintf("<%s %s=\"%s\" r:id=\"%s\"/>", b.w("headerReference"), b.wa("type"), k, id)
		}
		for i, k := range fks[1:] {
			n := fmt.Sprintf("footer%d.xml", i+2)
			id := b.addRel(nsR+"/footer", n, "")
			b.put("word/"+n, `<?xml version="1.0" encoding="UTF-8"?><w:ftr xmlns:w="`+nsW+`"><w:p><w:r><w:t>foreign `+k+` footer</w:t></w:r></w:p></w:ftr>`)
			b.ovr["/word/"+n] = "application/vnd.openxmlformats-officedocument.wordprocessingml.footer+xml"
			sect += fmt.Sprintf("<%s %s=\"%s\" r:id=\"%s\"/>", b.w("footerReference"), b.wa("type"), k, id)
		}
	}
	if flags&FSectPr != 0 || sect != "" {
		sect += fmt.Sprintf("<%s %s=\"11906\" %s=\"16838\"/><%s %s=\"1440\" %s=\"1800\" %s=\"1440\" %s=\"1800\" %s=\"851\" %s=\"992\" %s=\"0\"/>", b.w("pgSz"), b.wa("w"), b.wa("h"), b.w("pgMar"), b.wa("top"), b.wa("right"), b.wa("bottom"), b.wa("left"), b.wa("header"), b.wa("footer"), b.wa("gutter"))
		fmt.Fprintf(&body, "<%s>%s</%s>", b.w("sectPr"), sect, b.w("sectPr"))
	}
	nsdecl := ""
	switch b.pfx {
	case "w:":
		nsdecl = `xmlns:w="` + nsW + `"`
	case "ns0:":
		nsdecl = `xmlns:ns0="` + nsW + `"`
	default:
		nsdecl = `xmlns="` + nsW + `" xmlns:wx="` + nsW + `"`
	}
	doc := fmt.Sprintf(`<?xml version="1.0" encoding="UTF-8" standalone="yes"?>`+"\n"+`<%s %s xmlns:r="%s" xmlns:wp="http://schemas.openxmlformats.org/drawingml/2006/wordprocessingDrawing" xmlns:a="http://schemas.openxmlformats.org/drawingml/2006/main" xmlns:pic="http://schemas.openxmlformats.org/drawingml/2006/picture"><%s>%s</%s></%s>`,
		b.w("document"), nsdecl, nsR, b.w("body"), body.String(), b.w("body"), b.w("document"))
	b.put("word/document.xml", doc)
	// the order of the Relationship elements in a relationship part means nothing and differs between producers (Word lists the
	// main document last in _rels/.rels): a separate stream decides it, so that everything drawn above stays as it was
	ord := sim.NewRand(seed ^ 0x6f7264657273)
	permute := func(rs []rel) []rel {
		out := append([]rel{}, rs...)
		switch ord.Intn(4) {
		case 1: // reversed
			for i, j := 0, len(out)-1; i < j; i, j = i+1, j-1 {
				out[i], out[j] = out[j], out[i]
			}
		case 2: // rotated
			if len(out) > 1 {
				k := 1 + ord.Intn(len(out)-1)
				out = append(append([]rel{}, out[k:]...), out[:k]...)
			}
		case 3: // any order
			for i := len(out) - 1; i > 0; i-- {
				j := ord.Intn(i + 1)
				out[i], out[j] = out[j], out[i]
			}
		}
		return out
	}
	b.put("word/_rels/document.xml."+relsExt, relsXML(permute(b.docRel)))

	// ---- package level
	// the ids of the package-level relationships follow the same conventions as those of the main part: dense from
	// rId1 (most producers), with gaps or not starting at rId1 (parts were removed, other producers), or not rId<n> at all
	rootIDs := []string{"rId1", "rId2", "rId3"}
	switch {
	case flags&FOddIDs != 0:
		rootIDs = []string{"R1", "Rcore", "Rapp"}
	case flags&FSparseIDs != 0:
		rootIDs = [][]string{{"rId2", "rId4", "rId5"}, {"rId1", "rId3", "rId5"}, {"rId3", "rId1", "rId2"}, {"rId7", "rId8", "rId9"}}[b.r.Intn(4)]
	}
	pkgRels := []rel{{rootIDs[0], nsR + "/officeDocument", "word/document.xml", ""}}
	if flags&FDocProps != 0 {
		pkgRels = append(pkgRels, rel{rootIDs[1], "http://schemas.openxmlformats.org/package/2006/relationships/metadata/core-properties", "docProps/core.xml", ""},
			rel{rootIDs[2], nsR + "/extended-properties", "docProps/app.xml", ""})
		b.put("docProps/core.xml", `<?xml version="1.0" encoding="UTF-8"?><cp:coreProperties xmlns:cp="http://schemas.openxmlformats.org/package/2006/metadata/core-properties" xmlns:dc="http://purl.org/dc/elements/1.1/" xmlns:dcterms="http://purl.org/dc/terms/" xmlns:xsi="http://www.w3.org/2001/XMLSchema-instance"><dc:title>Foreign</dc:title><dc:creator>Other App</dc:creator><dcterms:created xsi:type="dcterms:W3CDTF">2020-01-02T03:04:05Z</dcterms:created></cp:coreProperties>`)
		b.put("docProps/app.xml", `<?xml version="1.0" encoding="UTF-8"?><Properties xmlns="http://schemas.openxmlformats.org/officeDocument/2006/extended-properties"><Application>Other App</Application><Pages>3</Pages></Properties>`)
		b.ovr["/docProps/core.xml"] = "application/vnd.openxmlformats-package.core-properties+xml"
		b.ovr["/docProps/app.xml"] = "application/vnd.openxmlformats-officedocument.extended-properties+xml"
	}
	b.put("_rels/."+relsExt, relsXML(permute(pkgRels)))
	var ct strings.Builder
	ct.WriteString(`<?xml version="1.0" encoding="UTF-8" standalone="yes"?>` + "\n" + `<Types xmlns="http://schemas.openxmlformats.org/package/2006/content-types">`)
	dk := make([]string, 0, len(b.defs))
	for k := range b.defs {
		dk = append(dk, k)
	}
	sort.Strings(dk)
	for _, k := range dk {
		fmt.Fprintf(&ct, `<Default Extension="%s" ContentType="%s"/>`, b.defs[k][0], b.defs[k][1])
	}
	ok := make([]string, 0, len(b.ovr))
	for k := range b.ovr {
		ok = append(ok, k)
	}
	sort.Strings(ok)
	for _, k := range ok {
		fmt.Fprintf(&ct, `<Override PartName="%s" ContentType="%s"/>`, k, b.ovr[k])
	}
	ct.WriteString("</Types>")
	b.put("[Content_Types].xml", ct.String())

	// ---- zip, content types first as other producers do, rest in a seeded order
	var buf bytes.Buffer
	zw := zip.NewWriter(&buf)
	names := append([]string{}, b.order...)
	sort.Strings(names)
	perm := r.Perm(len(names))
	ordered := []string{"[Content_Types].xml"}
	for _, i := range perm {
		if names[i] != "[Content_Types].xml" {
			ordered = append(ordered, names[i])
		}
	}
	for _, n := range ordered {
		method := zip.Deflate
		if strings.HasPrefix(n, "word/media/") {
			method = zip.Store
		}
		w, _ := zw.CreateHeader(&zip.FileHeader{Name: n, Method: method})
		w.Write(b.parts[n])
	}
	zw.Close()
	return &Result{Bytes: buf.Bytes(), Parts: b.parts, RunTexts: b.texts, MediaMain: mediaMain, Prefix: b.pfx}
}
