// Command simworker executes simulated runs against the library it was
// linked with (a scratch copy of /repo's working tree). One process, many
// runs; results are JSON lines on stdout. It is started by cmd/check.
package main

import (
	"bufio"
	"encoding/json"
	"flag"
	"fmt"
	"io"
	"os"
	"os/exec"
	"path/filepath"
	"runtime/pprof"
	"strings"
	"time"

	"github.com/zerx-lab/wordZero/pkg/document"

	"verif/props"
	"verif/sim"
	"verif/world"
)

// set with -ldflags -X
var (
	buildInstr = "0"
	buildRace  = "0"
)

type line struct {
	T     string          `json:"t"`
	Run   uint64          `json:"run,omitempty"`
	FP    string          `json:"fp,omitempty"`
	NT    bool            `json:"nt,omitempty"`
	Case  *sim.Case       `json:"case,omitempty"`
	Viol  []sim.Violation `json:"viol,omitempty"`
	Stats *sim.Stats      `json:"stats,omitempty"`
	Runs  int             `json:"runs,omitempty"`
	Msg   string          `json:"msg,omitempty"`
	Trace []string        `json:"trace,omitempty"`
	Note  string          `json:"note,omitempty"`
}

var out *bufio.Writer

func emit(l line) {
	b, _ := json.Marshal(l)
	out.Write(b)
	out.WriteByte('\n')
	out.Flush()
}

func die(f string, a ...any) {
	fmt.Fprintf(os.Stderr, "simworker: "+f+"\n", a...)
	os.Exit(2)
}

// testHang: self-test of the orchestrator's liveness watchdog (VERIF_TEST_HANG_RUN=<run index>).
func testHang(run uint64) {
	if v := os.Getenv("VERIF_TEST_HANG_RUN"); v != "" && v == fmt.Sprint(run) {
		for {
		}
	}
	if v := os.Getenv("VERIF_TEST_BLOCK_RUN"); v != "" && v == fmt.Sprint(run) {
		time.Sleep(1000 * time.Hour) // blocked, no CPU used
	}
}

var stopProfile = func() {}

func main() {
	out = bufio.NewWriterSize(os.Stdout, 1<<16)
	if len(os.Args) < 2 {
		die("usage: simworker run|witness|replay|shrink|exec ...")
	}
	document.SetGlobalLevel(document.LogLevelSilent)
	document.SetGlobalOutput(io.Discard)
	world.PanicSigFn = props.PanicSig
	cmd := os.Args[1]
	fs := flag.NewFlagSet(cmd, flag.ExitOnError)
	prop := fs.String("prop", "", "property id")
	seed := fs.Uint64("seed", 1, "VERIF_SEED")
	tier := fs.String("tier", "quick", "quick|thorough")
	from := fs.Uint64("from", 0, "first run index")
	step := fs.Uint64("step", 1, "stride")
	count := fs.Uint64("count", 1, "number of runs of this worker")
	budget := fs.Int("budget-ms", 0, "stop starting runs after this many ms (0 = none)")
	file := fs.String("file", "", "case file")
	outFile := fs.String("out", "", "output file")
	tmp := fs.String("tmp", "", "private scratch directory")
	record := fs.Bool("trace", false, "record a readable trace")
	maxc := fs.Int("max-candidates", 300, "shrink budget")
	slotFlag := fs.Int("slot", -1, "solo: the document slot to execute alone")
	coldFlag := fs.Bool("cold", false, "cold-start lane: mark every case cold (the concurrent phase is the first library use of this process)")
	fs.Parse(os.Args[2:])

	if *tmp == "" {
		d, err := os.MkdirTemp("", "simw")
		if err != nil {
			die("tmp: %v", err)
		}
		*tmp = d
		defer os.RemoveAll(d)
	}
	// relative paths the harness hands to the library (Markdown sources converted from files) are relative to this
	// process's private scratch directory
	for _, fp := range []*string{file, outFile, tmp} {
		if *fp != "" {
			if a, err := filepath.Abs(*fp); err == nil {
				*fp = a
			}
		}
	}
	if err := os.MkdirAll(*tmp, 0o755); err == nil {
		_ = os.Chdir(*tmp)
	}
	if pf := os.Getenv("VERIF_CPUPROFILE"); pf != "" { // development aid
		if f, err := os.Create(pf); err == nil {
			pprof.StartCPUProfile(f)
			defer pprof.StopCPUProfile()
			stopProfile = pprof.StopCPUProfile
		}
	}
	env := &props.Env{Tmp: *tmp, Tier: *tier, Instr: buildInstr == "1", Race: buildRace == "1", Record: *record}
	env.RaceNew = raceReader()
	env.SoloSlot = -1
	// isolated baseline: one document of a case alone in a fresh process (this binary, "solo" command)
	soloN := 0
	env.SoloFresh = func(c *sim.Case, slot int) ([]props.SoloObs, error) {
		self, err := os.Executable()
		if err != nil {
			return nil, err
		}
		soloN++
		dir := filepath.Join(*tmp, fmt.Sprintf("solo%d", soloN))
		if err := os.MkdirAll(dir, 0o755); err != nil {
			return nil, err
		}
		defer os.RemoveAll(dir)
		cb, _ := json.Marshal(c)
		cf := filepath.Join(dir, "case.json")
		if err := os.WriteFile(cf, cb, 0o644); err != nil {
			return nil, err
		}
		cmd := exec.Command(self, "solo", "--file", cf, "--slot", fmt.Sprint(slot), "--tmp", filepath.Join(dir, "t"))
		cmd.Env = append(os.Environ(), "GORACE=log_path="+filepath.Join(dir, "race")+" halt_on_error=0 exitcode=0")
		outb, err := cmd.Output()
		if err != nil {
			return nil, fmt.Errorf("solo process: %v", err)
		}
		var obs []props.SoloObs
		if err := json.Unmarshal(outb, &obs); err != nil {
			return nil, fmt.Errorf("solo process output: %v", err)
		}
		return obs, nil
	}

	switch cmd {
	case "run":
		p := mustProp(*prop)
		total := sim.NewStats()
		start := time.Now()
		n := 0
		for k := uint64(0); k < *count; k++ {
			if *budget > 0 && time.Since(start) > time.Duration(*budget)*time.Millisecond {
				break
			}
			i := *from + k**step
			c := props.NewCase(p, *seed, i, *tier)
			if *coldFlag {
				c.Cfg["cold"] = 1
			}
			emit(line{T: "begin", Run: i})
			testHang(i)
			res, infra := props.Execute(p, c, env)
			if infra != nil {
				emit(line{T: "infra", Run: i, Msg: infra.Error(), Case: c})
				os.Exit(2)
			}
			n++
			total.Add(res.Stats)
			l := line{T: "run", Run: i, FP: res.FP, NT: res.Nontrivial}
			if len(res.Viol) > 0 {
				l.Viol = res.Viol
				l.Case = c
			}
			if k < 3 && *from == 0 { // samples for the evidence file
				l.Case = c
			}
			emit(l)
		}
		emit(line{T: "stats", Stats: total, Runs: n})
	case "witness":
		p := mustProp(*prop)
		for i, c := range p.Witnesses() {
			c.Run = uint64(i)
			res, infra := props.Execute(p, c, env)
			if infra != nil {
				emit(line{T: "infra", Run: uint64(i), Msg: infra.Error(), Case: c})
				os.Exit(2)
			}
			emit(line{T: "witness", Run: uint64(i), Viol: res.Viol, Case: c, Note: c.Note, FP: res.FP})
		}
	case "exec", "replay":
		c := readCase(*file)
		p := mustProp(c.Prop)
		env.Record = env.Record || cmd == "exec"
		testHang(c.Run)
		// the cases this one needs to have been executed before it in the same process (they are functions of seed and index)
		for _, hi := range c.History {
			ht := c.HistoryTier
			if ht == "" {
				ht = "quick"
			}
			if _, infra := props.Execute(p, props.NewCase(p, c.Seed, hi, ht), env); infra != nil {
				emit(line{T: "infra", Msg: "process history: " + infra.Error()})
				os.Exit(2)
			}
		}
		res, infra := props.Execute(p, c, env)
		if infra != nil {
			emit(line{T: "infra", Msg: infra.Error()})
			os.Exit(2)
		}
		emit(line{T: "result", Viol: res.Viol, FP: res.FP, Stats: res.Stats, Trace: res.Trace})
		if cmd == "replay" && c.Expect != nil {
			for _, v := range res.Viol {
				if v.Clause == c.Expect.Clause && v.Sig == c.Expect.Sig {
					os.Exit(1)
				}
			}
			os.Exit(0)
		}
		if len(res.Viol) > 0 {
			os.Exit(1)
		}
	case "shrink":
		c := readCase(*file)
		p := mustProp(c.Prop)
		if c.Expect == nil {
			die("shrink: case has no expected violation")
		}
		small, tried := shrink(p, c, env, *maxc)
		b, _ := json.MarshalIndent(small, "", " ")
		if err := os.WriteFile(*outFile, b, 0o644); err != nil {
			die("write: %v", err)
		}
		emit(line{T: "shrunk", Runs: tried, Msg: fmt.Sprintf("%d -> %d ops", c.NOps(), small.NOps())})
	case "solo":
		c := readCase(*file)
		p := mustProp(c.Prop)
		var obs []props.SoloObs
		env.SoloSlot, env.SoloOut, env.SoloFresh = *slotFlag, &obs, nil
		if _, infra := props.Execute(p, c, env); infra != nil {
			die("infra: %v", infra)
		}
		b, _ := json.Marshal(obs)
		out.Write(b)
		out.Flush()
	case "fp":
		p := mustProp(*prop)
		for k := uint64(0); k < *count; k++ {
			i := *from + k**step
			c := props.NewCase(p, *seed, i, *tier)
			res, infra := props.Execute(p, c, env)
			if infra != nil {
				die("infra: %v", infra)
			}
			cb, _ := json.Marshal(c)
			fmt.Fprintf(out, "%d %s %s %d\n", i, res.FP, sim.Digest(cb), len(res.Viol))
		}
		out.Flush()
	case "list":
		fmt.Println(strings.Join(props.IDs(), " "))
	case "info":
		p := mustProp(*prop)
		d := p.Describe()
		if d.Level == "" {
			d.Level = "exploration"
		}
		hang := 20
		if h, ok := p.(interface{ HangSeconds() int }); ok {
			hang = h.HangSeconds()
		}
		b, _ := json.Marshal(map[string]any{"hang_seconds": hang, "flavor": p.Flavor(), "runs_quick": p.Runs("quick"), "runs_thorough": p.Runs("thorough"),
			"rule": d.Rule, "level": d.Level, "assumptions": d.Assumptions, "real_vs_stub": d.RealVsStub})
		fmt.Println(string(b))
	case "gen":
		p := mustProp(*prop)
		b, _ := json.MarshalIndent(props.NewCase(p, *seed, *from, *tier), "", " ")
		fmt.Println(string(b))
	default:
		die("unknown command %q", cmd)
	}
}

func mustProp(id string) props.Property {
	p := props.Get(id)
	if p == nil {
		die("unknown property %q", id)
	}
	return p
}

func readCase(path string) *sim.Case {
	b, err := os.ReadFile(path)
	if err != nil {
		die("read case: %v", err)
	}
	var c sim.Case
	if err := json.Unmarshal(b, &c); err != nil {
		die("parse case: %v", err)
	}
	if c.Cfg == nil {
		c.Cfg = map[string]int{}
	}
	return &c
}

// raceReader returns a function that yields the race reports written by this
// process since the previous call (the runtime appends them to
// $GORACE log_path.<pid>).
func raceReader() func() string {
	var logPath string
	for _, f := range strings.Fields(os.Getenv("GORACE")) {
		if strings.HasPrefix(f, "log_path=") {
			logPath = strings.TrimPrefix(f, "log_path=") + fmt.Sprintf(".%d", os.Getpid())
		}
	}
	var off int64
	return func() string {
		if logPath == "" {
			return ""
		}
		f, err := os.Open(logPath)
		if err != nil {
			return ""
		}
		defer f.Close()
		if _, err := f.Seek(off, 0); err != nil {
			return ""
		}
		b, _ := io.ReadAll(f)
		off += int64(len(b))
		return string(b)
	}
}

// reproduces reports whether executing c yields the expected violation.
func reproduces(p props.Property, c *sim.Case, env *props.Env) bool {
	if env.Race {
		// the race detector reports a given pair of stacks once per process:
		// every candidate needs a process of its own
		f := filepath.Join(env.Tmp, "cand.json")
		b, _ := json.Marshal(c)
		if err := os.WriteFile(f, b, 0o644); err != nil {
			return false
		}
		cmd := exec.Command(os.Args[0], "replay", "--file", f, "--tmp", filepath.Join(env.Tmp, "cand"))
		cmd.Env = os.Environ()
		err := cmd.Run()
		if ee, ok := err.(*exec.ExitError); ok && ee.ExitCode() == 1 {
			return true
		}
		return false
	}
	res, infra := props.Execute(p, c, env)
	if infra != nil || res == nil {
		return false
	}
	for _, v := range res.Viol {
		if v.Clause == c.Expect.Clause && v.Sig == c.Expect.Sig {
			return true
		}
	}
	return false
}

// shrink minimises the case while the same (clause, signature) persists:
// drop whole tasks, ddmin over each task's operations, then simplify the
// map-order policy and string arguments.
func shrink(p props.Property, c *sim.Case, env *props.Env, budget int) (*sim.Case, int) {
	best := c.Clone()
	tried := 0
	try := func(cand *sim.Case) bool {
		if tried >= budget {
			return false
		}
		tried++
		if reproduces(p, cand, env) {
			best = cand
			return true
		}
		return false
	}
	// drop tasks
	for ti := len(best.Tasks) - 1; ti >= 0 && len(best.Tasks) > 1; ti-- {
		cand := best.Clone()
		cand.Tasks[ti] = nil
		try(cand)
	}
	// ddmin per task
	for ti := range best.Tasks {
		for chunk := (len(best.Tasks[ti]) + 1) / 2; chunk >= 1; chunk /= 2 {
			for pass := 0; pass < 3; pass++ {
				removed := false
				for start := 0; start < len(best.Tasks[ti]) && tried < budget; {
					end := start + chunk
					if end > len(best.Tasks[ti]) {
						end = len(best.Tasks[ti])
					}
					cand := best.Clone()
					cand.Tasks[ti] = append(append([]sim.Op{}, cand.Tasks[ti][:start]...), cand.Tasks[ti][end:]...)
					if try(cand) {
						removed = true
					} else {
						start = end
					}
				}
				if !removed || chunk > 1 {
					break
				}
			}
		}
	}
	// simpler map order
	if best.Order != "" && best.Order != "sorted" {
		cand := best.Clone()
		cand.Order = "sorted"
		try(cand)
	}
	// shorter strings
	for ti := range best.Tasks {
		for oi := range best.Tasks[ti] {
			for si := range best.Tasks[ti][oi].S {
				s := string(best.Tasks[ti][oi].S[si])
				if len(s) <= 1 {
					continue
				}
				cand := best.Clone()
				cand.Tasks[ti][oi].S[si] = "x"
				if !try(cand) && tried >= budget {
					break
				}
			}
		}
	}
	return best, tried
}
