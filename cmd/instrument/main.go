// Command instrument produces the scratch copy of wordZero the simulator is
// built against: go.mod, go.sum and pkg/ of the current working tree (test
// files left out), optionally rewritten so that
//
//   - every range over a map asks verifrt.Keys for the iteration order, and
//   - sync.RWMutex / sync.Mutex / sync.Once / sync.WaitGroup become verifrt.RWMutex / verifrt.Mutex / verifrt.Once / verifrt.WaitGroup;
//     channel receives and sends outside select become verifrt.Recv / Recv2 / Send.
//
// It never writes below the source tree. A JSON report goes to stdout.
package main

import (
	"bytes"
	"encoding/json"
	"flag"
	"fmt"
	"go/ast"
	"go/format"
	"go/token"
	"go/types"
	"io/fs"
	"os"
	"path/filepath"
	"sort"
	"strings"

	"golang.org/x/tools/go/ast/astutil"
	"golang.org/x/tools/go/packages"
)

type report struct {
	Mode       string   `json:"mode"`
	Files      int      `json:"files_copied"`
	MapSites   []string `json:"map_range_sites_rewritten"`
	Refused    []string `json:"map_range_sites_refused"`
	LockSites  []string `json:"lock_types_replaced"`
	IOSites    []string `json:"file_system_calls_wrapped"`
	Points     int      `json:"preemption_points_inserted"`
	ClockSites []string `json:"clock_reads_replaced"`
	RewroteSrc []string `json:"files_rewritten"`
}

const rtImport = "github.com/zerx-lab/wordZero/pkg/verifrt"

func main() {
	src := flag.String("src", "/repo", "source tree")
	dst := flag.String("dst", "", "scratch directory (must not be inside src)")
	rt := flag.String("rt", "/verif/rt", "directory holding the verifrt sources")
	mode := flag.String("mode", "instr", "instr | plain")
	flag.Parse()
	if *dst == "" {
		fatal("need -dst")
	}
	absSrc, _ := filepath.Abs(*src)
	absDst, _ := filepath.Abs(*dst)
	if strings.HasPrefix(absDst+"/", absSrc+"/") {
		fatal("dst inside src")
	}
	rep := &report{Mode: *mode}
	if err := copyTree(absSrc, absDst, rep); err != nil {
		fatal("copy: %v", err)
	}
	// verifrt is always present so that the harness can import it in both flavours
	if err := copyRT(*rt, filepath.Join(absDst, "pkg", "verifrt")); err != nil {
		fatal("copy rt: %v", err)
	}
	if *mode == "instr" {
		if err := rewrite(absDst, rep); err != nil {
			fatal("rewrite: %v", err)
		}
	}
	sort.Strings(rep.MapSites)
	sort.Strings(rep.Refused)
	sort.Strings(rep.LockSites)
	out, _ := json.MarshalIndent(rep, "", " ")
	fmt.Println(string(out))
}

func fatal(f string, a ...any) {
	fmt.Fprintf(os.Stderr, "instrument: "+f+"\n", a...)
	os.Exit(2)
}

func copyTree(src, dst string, rep *report) error {
	if err := os.MkdirAll(dst, 0o755); err != nil {
		return err
	}
	for _, f := range []string{"go.mod", "go.sum"} {
		b, err := os.ReadFile(filepath.Join(src, f))
		if err != nil {
			return err
		}
		if err := os.WriteFile(filepath.Join(dst, f), b, 0o644); err != nil {
			return err
		}
	}
	root := filepath.Join(src, "pkg")
	return filepath.WalkDir(root, func(p string, d fs.DirEntry, err error) error {
		if err != nil {
			return err
		}
		rel, _ := filepath.Rel(src, p)
		if d.IsDir() {
			if d.Name() == "verifrt" {
				return filepath.SkipDir
			}
			return os.MkdirAll(filepath.Join(dst, rel), 0o755)
		}
		if !strings.HasSuffix(p, ".go") || strings.HasSuffix(p, "_test.go") {
			return nil
		}
		b, err := os.ReadFile(p)
		if err != nil {
			return err
		}
		rep.Files++
		return os.WriteFile(filepath.Join(dst, rel), b, 0o644)
	})
}

func copyRT(rt, dst string) error {
	if err := os.MkdirAll(dst, 0o755); err != nil {
		return err
	}
	ents, err := os.ReadDir(rt)
	if err != nil {
		return err
	}
	for _, e := range ents {
		if !strings.HasSuffix(e.Name(), ".go") {
			continue
		}
		b, err := os.ReadFile(filepath.Join(rt, e.Name()))
		if err != nil {
			return err
		}
		if err := os.WriteFile(filepath.Join(dst, e.Name()), b, 0o644); err != nil {
			return err
		}
	}
	return nil
}

func rewrite(dir string, rep *report) error {
	cfg := &packages.Config{
		Mode:       packages.NeedName | packages.NeedFiles | packages.NeedCompiledGoFiles | packages.NeedSyntax | packages.NeedTypes | packages.NeedTypesInfo | packages.NeedImports | packages.NeedDeps,
		Dir:        dir,
		BuildFlags: []string{"-tags=verif", "-mod=mod"},
		Env:        append(os.Environ(), "GOFLAGS=-mod=mod", "GOPROXY=off", "GOSUMDB=off", "GOTOOLCHAIN=local"),
	}
	pkgs, err := packages.Load(cfg, "./pkg/...")
	if err != nil {
		return err
	}
	for _, p := range pkgs {
		if len(p.Errors) > 0 {
			return fmt.Errorf("package %s: %v", p.PkgPath, p.Errors[0])
		}
		if strings.HasSuffix(p.PkgPath, "/verifrt") {
			continue
		}
		for i, f := range p.Syntax {
			name := p.CompiledGoFiles[i]
			if strings.HasPrefix(filepath.Base(name), "verif_") {
				continue // the harness's own hook file: its map walks are sorted already
			}
			changed := rewriteFile(p, f, name, dir, rep)
			if !changed {
				continue
			}
			// comments inside rewritten statements lose their anchor; keep only
			// those in front of the package clause (build constraints, doc)
			var keep []*ast.CommentGroup
			for _, cg := range f.Comments {
				if cg.End() < f.Package {
					keep = append(keep, cg)
				}
			}
			f.Comments = keep
			var buf bytes.Buffer
			if err := format.Node(&buf, p.Fset, f); err != nil {
				return fmt.Errorf("%s: %v", name, err)
			}
			if err := os.WriteFile(name, buf.Bytes(), 0o644); err != nil {
				return err
			}
			rel, _ := filepath.Rel(dir, name)
			rep.RewroteSrc = append(rep.RewroteSrc, rel)
		}
	}
	return nil
}

var ioWrappers = map[string]string{"Create": "OsCreate", "OpenFile": "OsOpenFile", "Open": "OsOpen", "Rename": "OsRename", "MkdirAll": "OsMkdirAll",
	"ReadFile": "OsReadFile", "WriteFile": "OsWriteFile", "Remove": "OsRemove"}

var zipWrappers = map[string]string{"Create": "ZipCreate", "CreateHeader": "ZipCreateHeader", "Close": "ZipClose"}

var uniq int

func fresh(prefix string) *ast.Ident {
	uniq++
	return ast.NewIdent(fmt.Sprintf("__vr%s%d", prefix, uniq))
}

func simple(e ast.Expr) bool {
	switch x := e.(type) {
	case *ast.Ident:
		return true
	case *ast.SelectorExpr:
		return simple(x.X)
	case *ast.ParenExpr:
		return simple(x.X)
	case *ast.StarExpr:
		return simple(x.X)
	}
	return false
}

// capturesOrAddr reports whether body contains a function literal that
// mentions one of the names, or takes the address of one.
func capturesOrAddr(body *ast.BlockStmt, names map[string]bool) bool {
	bad := false
	ast.Inspect(body, func(n ast.Node) bool {
		switch x := n.(type) {
		case *ast.FuncLit:
			ast.Inspect(x.Body, func(m ast.Node) bool {
				if id, ok := m.(*ast.Ident); ok && names[id.Name] {
					bad = true
				}
				return true
			})
		case *ast.UnaryExpr:
			if x.Op == token.AND {
				if id, ok := x.X.(*ast.Ident); ok && names[id.Name] {
					bad = true
				}
			}
		}
		return true
	})
	return bad
}

func isBlank(e ast.Expr) bool {
	if e == nil {
		return true
	}
	id, ok := e.(*ast.Ident)
	return ok && id.Name == "_"
}

func rewriteFile(p *packages.Package, f *ast.File, name, dir string, rep *report) bool {
	changed := false
	usesRT := false
	rel, _ := filepath.Rel(dir, name)

	// 1. lock types
	astutil.Apply(f, func(c *astutil.Cursor) bool {
		sel, ok := c.Node().(*ast.SelectorExpr)
		if !ok {
			return true
		}
		id, ok := sel.X.(*ast.Ident)
		if !ok {
			return true
		}
		pn, ok := p.TypesInfo.Uses[id].(*types.PkgName)
		if !ok || pn.Imported().Path() != "sync" {
			return true
		}
		if sel.Sel.Name == "RWMutex" || sel.Sel.Name == "Mutex" || sel.Sel.Name == "Once" || sel.Sel.Name == "WaitGroup" {
			pos := p.Fset.Position(sel.Pos())
			rep.LockSites = append(rep.LockSites, fmt.Sprintf("%s:%d sync.%s", rel, pos.Line, sel.Sel.Name))
			c.Replace(&ast.SelectorExpr{X: ast.NewIdent("verifrt"), Sel: ast.NewIdent(sel.Sel.Name)})
			changed, usesRT = true, true
		}
		return true
	}, nil)

	// 1b. file-system calls -> verifrt wrappers (yield point + injectable failure)
	astutil.Apply(f, func(c *astutil.Cursor) bool {
		sel, ok := c.Node().(*ast.SelectorExpr)
		if !ok {
			return true
		}
		id, ok := sel.X.(*ast.Ident)
		if !ok {
			return true
		}
		pn, ok := p.TypesInfo.Uses[id].(*types.PkgName)
		if !ok || pn.Imported().Path() != "os" {
			return true
		}
		if w, ok := ioWrappers[sel.Sel.Name]; ok {
			pos := p.Fset.Position(sel.Pos())
			rep.IOSites = append(rep.IOSites, fmt.Sprintf("%s:%d os.%s", rel, pos.Line, sel.Sel.Name))
			c.Replace(&ast.SelectorExpr{X: ast.NewIdent("verifrt"), Sel: ast.NewIdent(w)})
			changed, usesRT = true, true
		}
		return true
	}, nil)

	// 1f. channel receives and sends outside select -> verifrt.Recv / Recv2 / Send: a task that would block on a channel gives
	// the baton to the other tasks instead of blocking for real while it holds it (the peer it waits for may be another task)
	inSelect := map[ast.Node]bool{}
	ast.Inspect(f, func(n ast.Node) bool {
		if cc, ok := n.(*ast.CommClause); ok && cc.Comm != nil {
			ast.Inspect(cc.Comm, func(m ast.Node) bool {
				if m != nil {
					inSelect[m] = true
				}
				return true
			})
		}
		return true
	})
	astutil.Apply(f, func(c *astutil.Cursor) bool {
		switch x := c.Node().(type) {
		case *ast.AssignStmt:
			if len(x.Lhs) == 2 && len(x.Rhs) == 1 && !inSelect[x] {
				if u, ok := x.Rhs[0].(*ast.UnaryExpr); ok && u.Op == token.ARROW {
					pos := p.Fset.Position(u.Pos())
					rep.LockSites = append(rep.LockSites, fmt.Sprintf("%s:%d channel receive (2 values)", rel, pos.Line))
					x.Rhs[0] = &ast.CallExpr{Fun: &ast.SelectorExpr{X: ast.NewIdent("verifrt"), Sel: ast.NewIdent("Recv2")}, Args: []ast.Expr{u.X}}
					changed, usesRT = true, true
				}
			}
		case *ast.UnaryExpr:
			if x.Op == token.ARROW && !inSelect[x] {
				if _, isRange := c.Parent().(*ast.RangeStmt); !isRange {
					pos := p.Fset.Position(x.Pos())
					rep.LockSites = append(rep.LockSites, fmt.Sprintf("%s:%d channel receive", rel, pos.Line))
					c.Replace(&ast.CallExpr{Fun: &ast.SelectorExpr{X: ast.NewIdent("verifrt"), Sel: ast.NewIdent("Recv")}, Args: []ast.Expr{x.X}})
					changed, usesRT = true, true
				}
			}
		case *ast.SendStmt:
			if !inSelect[x] {
				pos := p.Fset.Position(x.Pos())
				rep.LockSites = append(rep.LockSites, fmt.Sprintf("%s:%d channel send", rel, pos.Line))
				c.Replace(&ast.ExprStmt{X: &ast.CallExpr{Fun: &ast.SelectorExpr{X: ast.NewIdent("verifrt"), Sel: ast.NewIdent("Send")}, Args: []ast.Expr{x.Chan, x.Value}}})
				changed, usesRT = true, true
			}
		}
		return true
	}, nil)

	// 1e. time.Now -> verifrt.Now (clock seam)
	astutil.Apply(f, func(c *astutil.Cursor) bool {
		sel, ok := c.Node().(*ast.SelectorExpr)
		if !ok || sel.Sel.Name != "Now" {
			return true
		}
		id, ok := sel.X.(*ast.Ident)
		if !ok {
			return true
		}
		pn, ok := p.TypesInfo.Uses[id].(*types.PkgName)
		if !ok || pn.Imported().Path() != "time" {
			return true
		}
		pos := p.Fset.Position(sel.Pos())
		rep.ClockSites = append(rep.ClockSites, fmt.Sprintf("%s:%d time.Now", rel, pos.Line))
		c.Replace(&ast.SelectorExpr{X: ast.NewIdent("verifrt"), Sel: ast.NewIdent("Now")})
		changed, usesRT = true, true
		return true
	}, nil)

	// 1c. (*archive/zip.Writer).Create / CreateHeader / Close -> verifrt wrappers: entry boundaries are yield points
	astutil.Apply(f, func(c *astutil.Cursor) bool {
		call, ok := c.Node().(*ast.CallExpr)
		if !ok {
			return true
		}
		sel, ok := call.Fun.(*ast.SelectorExpr)
		if !ok {
			return true
		}
		w, ok := zipWrappers[sel.Sel.Name]
		if !ok {
			return true
		}
		t := p.TypesInfo.TypeOf(sel.X)
		if t == nil || t.String() != "*archive/zip.Writer" {
			return true
		}
		pos := p.Fset.Position(sel.Pos())
		rep.IOSites = append(rep.IOSites, fmt.Sprintf("%s:%d zip.Writer.%s", rel, pos.Line, sel.Sel.Name))
		c.Replace(&ast.CallExpr{Fun: &ast.SelectorExpr{X: ast.NewIdent("verifrt"), Sel: ast.NewIdent(w)}, Args: append([]ast.Expr{sel.X}, call.Args...)})
		changed, usesRT = true, true
		return true
	}, nil)

	// 1d. (*os.File).Close -> verifrt.FileClose (a close that reports lost delayed writes can be injected);
	//     zip.NewWriter(w) -> zip.NewWriter(verifrt.Writer(w)) (every Write of the package writer is a fault point)
	astutil.Apply(f, func(c *astutil.Cursor) bool {
		call, ok := c.Node().(*ast.CallExpr)
		if !ok {
			return true
		}
		sel, ok := call.Fun.(*ast.SelectorExpr)
		if !ok {
			return true
		}
		if sel.Sel.Name == "Close" && len(call.Args) == 0 {
			t := p.TypesInfo.TypeOf(sel.X)
			if t != nil && t.String() == "*os.File" {
				pos := p.Fset.Position(sel.Pos())
				rep.IOSites = append(rep.IOSites, fmt.Sprintf("%s:%d os.File.Close", rel, pos.Line))
				c.Replace(&ast.CallExpr{Fun: &ast.SelectorExpr{X: ast.NewIdent("verifrt"), Sel: ast.NewIdent("FileClose")}, Args: []ast.Expr{sel.X}})
				changed, usesRT = true, true
			}
			return true
		}
		if sel.Sel.Name == "NewWriter" && len(call.Args) == 1 {
			id, ok := sel.X.(*ast.Ident)
			if !ok {
				return true
			}
			pn, ok := p.TypesInfo.Uses[id].(*types.PkgName)
			if !ok || pn.Imported().Path() != "archive/zip" {
				return true
			}
			if inner, ok := call.Args[0].(*ast.CallExpr); ok {
				if is, ok := inner.Fun.(*ast.SelectorExpr); ok && is.Sel.Name == "Writer" {
					if x, ok := is.X.(*ast.Ident); ok && x.Name == "verifrt" {
						return true // already wrapped
					}
				}
			}
			pos := p.Fset.Position(sel.Pos())
			rep.IOSites = append(rep.IOSites, fmt.Sprintf("%s:%d zip.NewWriter", rel, pos.Line))
			call.Args[0] = &ast.CallExpr{Fun: &ast.SelectorExpr{X: ast.NewIdent("verifrt"), Sel: ast.NewIdent("Writer")}, Args: []ast.Expr{call.Args[0]}}
			changed, usesRT = true, true
		}
		return true
	}, nil)

	// 2. range over map
	labeled := map[ast.Stmt]bool{}
	ast.Inspect(f, func(n ast.Node) bool {
		if l, ok := n.(*ast.LabeledStmt); ok {
			labeled[l.Stmt] = true
		}
		return true
	})
	astutil.Apply(f, nil, func(c *astutil.Cursor) bool {
		rs, ok := c.Node().(*ast.RangeStmt)
		if !ok {
			return true
		}
		t := p.TypesInfo.TypeOf(rs.X)
		if t == nil {
			return true
		}
		if _, ok := t.Underlying().(*types.Map); !ok {
			return true
		}
		pos := p.Fset.Position(rs.Pos())
		site := fmt.Sprintf("%s:%d", rel, pos.Line)
		if isBlank(rs.Key) && isBlank(rs.Value) {
			return true // order cannot be observed through the loop variables; body runs len(m) times
		}
		names := map[string]bool{}
		if id, ok := rs.Key.(*ast.Ident); ok && id.Name != "_" {
			names[id.Name] = true
		}
		if id, ok := rs.Value.(*ast.Ident); ok && id.Name != "_" {
			names[id.Name] = true
		}
		if capturesOrAddr(rs.Body, names) {
			rep.Refused = append(rep.Refused, site+" (loop variable captured or address taken)")
			return true
		}
		mexpr := rs.X
		var pre []ast.Stmt
		if !simple(mexpr) {
			if labeled[rs] {
				rep.Refused = append(rep.Refused, site+" (labeled loop over non-simple map expression)")
				return true
			}
			tmp := fresh("m")
			pre = append(pre, &ast.AssignStmt{Lhs: []ast.Expr{tmp}, Tok: token.DEFINE, Rhs: []ast.Expr{mexpr}})
			mexpr = tmp
		}
		keysCall := &ast.CallExpr{Fun: &ast.SelectorExpr{X: ast.NewIdent("verifrt"), Sel: ast.NewIdent("Keys")}, Args: []ast.Expr{mexpr}}
		var keyIdent ast.Expr
		var head []ast.Stmt
		okId := fresh("ok")
		define := rs.Tok == token.DEFINE
		if define && !isBlank(rs.Key) {
			keyIdent = rs.Key
		} else {
			keyIdent = fresh("k")
			if !isBlank(rs.Key) { // assignment form: k = key
				head = append(head, &ast.AssignStmt{Lhs: []ast.Expr{rs.Key}, Tok: token.ASSIGN, Rhs: []ast.Expr{keyIdent}})
			}
		}
		idx := &ast.IndexExpr{X: mexpr, Index: keyIdent}
		if isBlank(rs.Value) {
			head = append(head, &ast.IfStmt{
				Init: &ast.AssignStmt{Lhs: []ast.Expr{ast.NewIdent("_"), okId}, Tok: token.DEFINE, Rhs: []ast.Expr{idx}},
				Cond: &ast.UnaryExpr{Op: token.NOT, X: okId},
				Body: &ast.BlockStmt{List: []ast.Stmt{&ast.BranchStmt{Tok: token.CONTINUE}}},
			})
		} else if define {
			head = append(head,
				&ast.AssignStmt{Lhs: []ast.Expr{rs.Value, okId}, Tok: token.DEFINE, Rhs: []ast.Expr{idx}},
				&ast.IfStmt{Cond: &ast.UnaryExpr{Op: token.NOT, X: okId}, Body: &ast.BlockStmt{List: []ast.Stmt{&ast.BranchStmt{Tok: token.CONTINUE}}}},
			)
		} else {
			tv := fresh("v")
			head = append(head,
				&ast.AssignStmt{Lhs: []ast.Expr{tv, okId}, Tok: token.DEFINE, Rhs: []ast.Expr{idx}},
				&ast.IfStmt{Cond: &ast.UnaryExpr{Op: token.NOT, X: okId}, Body: &ast.BlockStmt{List: []ast.Stmt{&ast.BranchStmt{Tok: token.CONTINUE}}}},
				&ast.AssignStmt{Lhs: []ast.Expr{rs.Value}, Tok: token.ASSIGN, Rhs: []ast.Expr{tv}},
			)
		}
		newBody := &ast.BlockStmt{List: append(head, rs.Body.List...)}
		nrs := &ast.RangeStmt{Key: ast.NewIdent("_"), Value: keyIdent, Tok: token.DEFINE, X: keysCall, Body: newBody}
		if len(pre) > 0 {
			c.Replace(&ast.BlockStmt{List: append(pre, nrs)})
		} else {
			c.Replace(nrs)
		}
		rep.MapSites = append(rep.MapSites, site)
		changed, usesRT = true, true
		return true
	})

	// 3. preemption points: first statement of every function body and of every loop body
	point := func() ast.Stmt {
		return &ast.ExprStmt{X: &ast.CallExpr{Fun: &ast.SelectorExpr{X: ast.NewIdent("verifrt"), Sel: ast.NewIdent("Point")}}}
	}
	ast.Inspect(f, func(n ast.Node) bool {
		var body *ast.BlockStmt
		switch x := n.(type) {
		case *ast.FuncDecl:
			if x.Name != nil && x.Name.Name == "init" {
				return true
			}
			body = x.Body
		case *ast.FuncLit:
			body = x.Body
		case *ast.ForStmt:
			body = x.Body
		case *ast.RangeStmt:
			body = x.Body
		}
		if body != nil {
			body.List = append([]ast.Stmt{point()}, body.List...)
			rep.Points++
			changed, usesRT = true, true
		}
		return true
	})

	if usesRT {
		astutil.AddImport(p.Fset, f, rtImport)
		if !astutil.UsesImport(f, "sync") {
			astutil.DeleteImport(p.Fset, f, "sync")
		}
		if !astutil.UsesImport(f, "os") {
			astutil.DeleteImport(p.Fset, f, "os")
		}
		if !astutil.UsesImport(f, "time") {
			astutil.DeleteImport(p.Fset, f, "time")
		}
	}
	return changed
}
