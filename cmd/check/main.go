package main

import (
	"fmt"

	_ "github.com/anishathalye/porcupine"
	"github.com/zerx-lab/wordZero/pkg/document"
	_ "golang.org/x/tools/go/packages"
)

func main() { d := document.New(); d.AddParagraph("x"); b, err := d.ToBytes(); fmt.Println(len(b), err) }
