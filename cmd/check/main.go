// Command check is the orchestrator behind every command registered in
// MANIFEST.json:
//
//	check <property> [--tier quick|thorough] [--runs N] [--budget seconds] [--workers W]
//	check <property> --replay <file>
//	check build            (setup: build and cache the workers for the current tree)
//	check selftest-determinism [props…]
//
// It snapshots /repo's working tree into a scratch copy (instrumented: map
// iteration order and locks behind simulator-owned seams), builds the worker
// against it, fans seeded runs out over worker processes, minimises and
// re-plays violations, and writes the evidence file.
//
// Exit codes: 0 property held on everything explored (KNOWN-FINDING lines may
// be printed); 1 at least one unlisted violation (VIOLATION lines); 2
// infrastructure trouble (never prints VIOLATION).
package main

import (
	"bufio"
	"bytes"
	"crypto/sha256"
	"encoding/hex"
	"encoding/json"
	"fmt"
	"io"
	"io/fs"
	"os"
	"os/exec"
	"os/signal"
	"path/filepath"
	"runtime"
	"sort"
	"strconv"
	"strings"
	"sync"
	"syscall"
	"time"

	"verif/sim"
)

// verifDir is /verif for every registered command. VERIF_DIR (development only: running
// the checks from a snapshot of /verif while /verif itself is being edited) redirects it.
var verifDir = "/verif"

// repoDir is /repo for every registered command. VERIF_REPO (development only:
// running the checks against a scratch worktree that carries a seeded change)
// redirects it; evidence and replays then go to VERIF_OUT instead of /verif.
var (
	repoDir = "/repo"
	outDir  = verifDir
)

func init() {
	if v := os.Getenv("VERIF_DIR"); v != "" {
		verifDir, outDir = v, v
	}
	if r := os.Getenv("VERIF_REPO"); r != "" {
		repoDir = r
		outDir = os.Getenv("VERIF_OUT")
		if outDir == "" {
			outDir = filepath.Join(os.TempDir(), "verif-out")
		}
		os.MkdirAll(outDir, 0o755)
	} else if o := os.Getenv("VERIF_OUT"); o != "" {
		// development: long exploratory runs that must not overwrite the evidence of the registered commands
		outDir = o
		os.MkdirAll(outDir, 0o755)
	}
}

var goEnv = []string{"GOFLAGS=-mod=mod", "GOPROXY=off", "GOSUMDB=off", "GOTOOLCHAIN=local", "CGO_ENABLED=1"}

func infra(f string, a ...any) {
	fmt.Fprintf(os.Stderr, "check: INFRASTRUCTURE: "+f+"\n", a...)
	cleanup()
	os.Exit(2)
}

var (
	cleanMu   sync.Mutex
	cleanDirs []string
)

func addClean(d string) {
	cleanMu.Lock()
	cleanDirs = append(cleanDirs, d)
	cleanMu.Unlock()
}

func cleanup() {
	cleanMu.Lock()
	defer cleanMu.Unlock()
	for _, d := range cleanDirs {
		os.RemoveAll(d)
	}
	cleanDirs = nil
}

func scratchRoot() string {
	for _, d := range []string{os.Getenv("VERIF_SCRATCH"), "/var/tmp", os.TempDir()} {
		if d == "" {
			continue
		}
		if st, err := os.Stat(d); err == nil && st.IsDir() {
			return d
		}
	}
	return os.TempDir()
}

func mkScratch(prefix string) string {
	d, err := os.MkdirTemp(scratchRoot(), prefix)
	if err != nil {
		infra("mktemp: %v", err)
	}
	addClean(d)
	return d
}

// ---- tree hash and worker build --------------------------------------------------

func hashTree() string {
	h := sha256.New()
	add := func(root string, keep func(string) bool) {
		var files []string
		filepath.WalkDir(root, func(p string, d fs.DirEntry, err error) error {
			if err != nil {
				return nil
			}
			if d.IsDir() {
				n := d.Name()
				if n == ".git" || n == ".cache" || n == "bin" || n == "evidence" || n == "replays" || n == "seeded" {
					return filepath.SkipDir
				}
				return nil
			}
			if keep(p) {
				files = append(files, p)
			}
			return nil
		})
		sort.Strings(files)
		for _, f := range files {
			b, err := os.ReadFile(f)
			if err != nil {
				continue
			}
			fmt.Fprintf(h, "%s\x00%d\x00", f, len(b))
			h.Write(b)
		}
	}
	isGo := func(p string) bool { return strings.HasSuffix(p, ".go") && !strings.HasSuffix(p, "_test.go") }
	add(filepath.Join(repoDir, "pkg"), isGo)
	add(verifDir, func(p string) bool { return isGo(p) || strings.HasSuffix(p, "go.mod") })
	for _, f := range []string{"go.mod", "go.sum"} {
		b, _ := os.ReadFile(filepath.Join(repoDir, f))
		h.Write(b)
	}
	return hex.EncodeToString(h.Sum(nil))[:20]
}

func run(dir string, env []string, name string, args ...string) (string, error) {
	cmd := exec.Command(name, args...)
	cmd.Dir = dir
	cmd.Env = append(os.Environ(), env...)
	var buf bytes.Buffer
	cmd.Stdout = &buf
	cmd.Stderr = &buf
	err := cmd.Run()
	return buf.String(), err
}

func ensureTool(name string) string {
	bin := filepath.Join(verifDir, "bin", name)
	src := filepath.Join(verifDir, "cmd", name)
	need := false
	st, err := os.Stat(bin)
	if err != nil {
		need = true
	} else {
		filepath.WalkDir(src, func(p string, d fs.DirEntry, err error) error {
			if err == nil && !d.IsDir() {
				if fi, e := d.Info(); e == nil && fi.ModTime().After(st.ModTime()) {
					need = true
				}
			}
			return nil
		})
	}
	if need {
		if out, err := run(verifDir, goEnv, "go", "build", "-o", bin, "./cmd/"+name); err != nil {
			infra("building %s: %v\n%s", name, err, out)
		}
	}
	return bin
}

type buildInfo struct {
	Worker  string          `json:"worker"`
	Flavor  string          `json:"flavor"`
	MapSeam string          `json:"map_seam"`
	Report  json.RawMessage `json:"instrument_report,omitempty"`
	Note    string          `json:"note,omitempty"`
}

// ensureWorker builds (or finds in the content-addressed cache) the worker of
// a flavour: "instr" or "race" (instr + race detector). If the instrumented
// copy does not compile while the plain copy does, it falls back to the plain
// copy and says so (map_seam=off).
func ensureWorker(flavor string) *buildInfo {
	key := hashTree()
	cdir := filepath.Join(verifDir, ".cache", key)
	os.MkdirAll(cdir, 0o755)
	lock, err := os.OpenFile(filepath.Join(verifDir, ".cache", "build.lock"), os.O_CREATE|os.O_RDWR, 0o644)
	if err == nil {
		syscall.Flock(int(lock.Fd()), syscall.LOCK_EX)
		defer func() { syscall.Flock(int(lock.Fd()), syscall.LOCK_UN); lock.Close() }()
	}
	infoPath := filepath.Join(cdir, "worker-"+flavor+".json")
	if b, err := os.ReadFile(infoPath); err == nil {
		var bi buildInfo
		if json.Unmarshal(b, &bi) == nil {
			if _, err := os.Stat(bi.Worker); err == nil {
				return &bi
			}
		}
	}
	evictOld(filepath.Join(verifDir, ".cache"), key)
	instrument := ensureTool("instrument")
	try := func(mode string) (*buildInfo, string) {
		scratch := mkScratch("verif-build-")
		defer os.RemoveAll(scratch)
		src := filepath.Join(scratch, "src")
		rep, err := run(verifDir, goEnv, instrument, "-src", repoDir, "-dst", src, "-rt", filepath.Join(verifDir, "rt"), "-mode", mode)
		if err != nil {
			return nil, "instrument(" + mode + "): " + rep
		}
		gomod, _ := os.ReadFile(filepath.Join(verifDir, "go.mod"))
		gm := strings.Replace(string(gomod), "=> /repo", "=> "+src, 1)
		os.WriteFile(filepath.Join(scratch, "go.mod"), []byte(gm), 0o644)
		gosum, _ := os.ReadFile(filepath.Join(verifDir, "go.sum"))
		os.WriteFile(filepath.Join(scratch, "go.sum"), gosum, 0o644)
		worker := filepath.Join(cdir, "worker-"+flavor)
		instr := "0"
		if mode == "instr" {
			instr = "1"
		}
		args := []string{"build", "-modfile=" + filepath.Join(scratch, "go.mod"), "-tags", "verif", "-trimpath",
			"-ldflags", "-X main.buildInstr=" + instr + " -X main.buildRace=" + map[bool]string{true: "1", false: "0"}[flavor == "race"]}
		if flavor == "race" {
			args = append(args, "-race")
		}
		args = append(args, "-o", worker, "./cmd/simworker")
		out, err := run(verifDir, goEnv, "go", args...)
		if err != nil {
			return nil, "go build(" + mode + "): " + out
		}
		bi := &buildInfo{Worker: worker, Flavor: flavor, MapSeam: map[string]string{"instr": "on", "plain": "off"}[mode]}
		if json.Valid([]byte(rep)) {
			bi.Report = json.RawMessage(rep)
		}
		return bi, ""
	}
	bi, why := try("instr")
	if bi == nil {
		var why2 string
		bi, why2 = try("plain")
		if bi == nil {
			infra("cannot build the worker (either %s does not compile or the harness is broken):\n%s\n%s", repoDir, why, why2)
		}
		bi.Note = "instrumented copy failed to build, fell back to plain copy: " + firstLines(why, 6)
		fmt.Fprintf(os.Stderr, "check: warning: %s\n", bi.Note)
	}
	b, _ := json.MarshalIndent(bi, "", " ")
	os.WriteFile(infoPath, b, 0o644)
	return bi
}

func firstLines(s string, n int) string {
	ls := strings.Split(s, "\n")
	if len(ls) > n {
		ls = ls[:n]
	}
	return strings.Join(ls, " | ")
}

func evictOld(cache, keep string) {
	ents, err := os.ReadDir(cache)
	if err != nil {
		return
	}
	type e struct {
		name string
		t    time.Time
	}
	var es []e
	for _, d := range ents {
		if !d.IsDir() || d.Name() == keep {
			continue
		}
		if fi, err := d.Info(); err == nil {
			es = append(es, e{d.Name(), fi.ModTime()})
		}
	}
	sort.Slice(es, func(i, j int) bool { return es[i].t.After(es[j].t) })
	for i, x := range es {
		if i >= 8 {
			os.RemoveAll(filepath.Join(cache, x.name))
		}
	}
}

// ---- known findings ---------------------------------------------------------------

type finding struct {
	Status, Prop, ID, Clause, Sig, What string
}

func loadFindings() []finding {
	b, err := os.ReadFile(filepath.Join(verifDir, "KNOWN_FINDINGS.txt"))
	if err != nil {
		return nil
	}
	var out []finding
	for _, ln := range strings.Split(string(b), "\n") {
		ln = strings.TrimSpace(ln)
		if ln == "" || strings.HasPrefix(ln, "#") {
			continue
		}
		var f finding
		switch {
		case strings.HasPrefix(ln, "known:"):
			f.Status = "known"
		case strings.HasPrefix(ln, "fixed:"):
			f.Status = "fixed"
		default:
			continue
		}
		head, what, _ := strings.Cut(ln, " -- ")
		f.What = what
		for _, tok := range strings.Fields(head) {
			k, v, ok := strings.Cut(tok, "=")
			if !ok {
				continue
			}
			switch k {
			case "property":
				f.Prop = v
			case "id":
				f.ID = v
			case "clause":
				f.Clause = v
			case "signature":
				f.Sig = v
			}
		}
		out = append(out, f)
	}
	return out
}

func matchKnown(fs []finding, v sim.Violation) *finding {
	for i := range fs {
		f := &fs[i]
		if f.Status == "known" && f.Prop == v.Prop && f.Clause == v.Clause && f.Sig == v.Sig {
			return f
		}
	}
	return nil
}

// ---- worker protocol ----------------------------------------------------------------

type wline struct {
	T     string          `json:"t"`
	Run   uint64          `json:"run"`
	FP    string          `json:"fp"`
	NT    bool            `json:"nt"`
	Case  json.RawMessage `json:"case"`
	Viol  []sim.Violation `json:"viol"`
	Stats *sim.Stats      `json:"stats"`
	Runs  int             `json:"runs"`
	Msg   string          `json:"msg"`
	Note  string          `json:"note"`
	Trace []string        `json:"trace"`
}

type found struct {
	Run  uint64
	Case json.RawMessage
	V    sim.Violation
	Hist []uint64 // the runs the same worker process had executed before this one
	Tier string
}

type info struct {
	Flavor      string            `json:"flavor"`
	RunsQuick   int               `json:"runs_quick"`
	RunsThor    int               `json:"runs_thorough"`
	Rule        string            `json:"rule"`
	Level       string            `json:"level"`
	Assumptions []string          `json:"assumptions"`
	RealVsStub  map[string]string `json:"real_vs_stub"`
	Hang        int               `json:"hang_seconds"`
}

func workerEnv(tmp string, race bool) []string {
	env := append([]string{}, goEnv...)
	if race {
		env = append(env, "GORACE=log_path="+filepath.Join(tmp, "race")+" halt_on_error=0 history_size=5 exitcode=0")
	}
	return env
}

func main() {
	if len(os.Args) < 2 {
		fmt.Fprintln(os.Stderr, "usage: check <property>|build|selftest-determinism [flags]")
		os.Exit(2)
	}
	sigc := make(chan os.Signal, 1)
	signal.Notify(sigc, os.Interrupt, syscall.SIGTERM)
	go func() { <-sigc; cleanup(); os.Exit(2) }()
	defer cleanup()

	switch os.Args[1] {
	case "build":
		for _, f := range []string{"instr", "race"} {
			bi := ensureWorker(f)
			fmt.Printf("worker %s: %s (map_seam=%s)\n", f, bi.Worker, bi.MapSeam)
		}
		return
	case "selftest-determinism":
		os.Exit(selftestDeterminism(os.Args[2:]))
	}
	prop := os.Args[1]
	tier := os.Getenv("VERIF_TIER")
	if tier == "" {
		tier = "quick"
	}
	seed := uint64(1)
	if s := os.Getenv("VERIF_SEED"); s != "" {
		if v, err := strconv.ParseUint(s, 10, 64); err == nil {
			seed = v
		} else if v, err := strconv.ParseInt(s, 10, 64); err == nil {
			seed = uint64(v)
		}
	}
	runs, budget, workers := 0, 0, 0
	replay := ""
	wild := false
	args := os.Args[2:]
	for i := 0; i < len(args); i++ {
		next := func() string {
			i++
			if i >= len(args) {
				infra("flag %s needs a value", args[i-1])
			}
			return args[i]
		}
		switch args[i] {
		case "--tier":
			tier = next()
		case "--runs":
			runs, _ = strconv.Atoi(next())
		case "--budget":
			budget, _ = strconv.Atoi(next())
		case "--workers":
			workers, _ = strconv.Atoi(next())
		case "--replay":
			replay = next()
		case "--seed":
			seed, _ = strconv.ParseUint(next(), 10, 64)
		case "--wild":
			wild = true
		default:
			infra("unknown flag %s", args[i])
		}
	}
	_ = wild
	if tier != "quick" && tier != "thorough" {
		infra("tier must be quick or thorough")
	}
	os.Exit(checkProperty(prop, tier, seed, runs, budget, workers, replay))
}

func getInfo(worker, prop string) *info {
	out, err := exec.Command(worker, "info", "--prop", prop).Output()
	if err != nil {
		infra("worker info %s: %v", prop, err)
	}
	var in info
	if err := json.Unmarshal(out, &in); err != nil {
		infra("worker info: %v: %s", err, out)
	}
	return &in
}

func checkProperty(prop, tier string, seed uint64, runs, budget, workers int, replay string) int {
	start := time.Now()
	// every property's default flavour is known only to the worker; the instr
	// worker answers "info" for all of them
	base := ensureWorker("instr")
	in := getInfo(base.Worker, prop)
	bi := base
	if in.Flavor == "race" {
		bi = ensureWorker("race")
	}
	tmp := mkScratch("verif-run-")

	if replay != "" {
		if b, err := os.ReadFile(replay); err == nil && bytes.Contains(b, []byte(`"clause": "process-crash"`)) {
			if fe := replayFatal(bi, in, replay, tmp, time.Duration(hangSeconds())*time.Second); fe != "" {
				fmt.Printf("VIOLATION property=%s replay=%s\n", prop, replay)
				return 1
			}
			fmt.Println("replay: the process was not aborted")
			return 0
		}
		if b, err := os.ReadFile(replay); err == nil && bytes.Contains(b, []byte(`"clause": "hang"`)) {
			if replayHangs(bi, in, replay, tmp, time.Duration(hangSeconds())*time.Second) {
				fmt.Printf("VIOLATION property=%s replay=%s\n", prop, replay)
				return 1
			}
			fmt.Println("replay: the case terminated within the liveness bound")
			return 0
		}
		tries := 1
		if in.Flavor == "race" {
			tries = 3 // the race detector misses a race in a few percent of executions; the schedule itself replays exactly
		}
		for k := 0; k < tries; k++ {
			cmd := exec.Command(bi.Worker, "replay", "--file", replay, "--tmp", filepath.Join(tmp, fmt.Sprintf("w%d", k)))
			cmd.Env = append(os.Environ(), workerEnv(tmp, in.Flavor == "race")...)
			out, err := cmd.CombinedOutput()
			if ee, ok := err.(*exec.ExitError); ok && ee.ExitCode() == 1 {
				os.Stdout.Write(out)
				fmt.Printf("VIOLATION property=%s replay=%s\n", prop, replay)
				return 1
			} else if err != nil {
				os.Stdout.Write(out)
				infra("replay: %v", err)
			}
			if k == tries-1 {
				os.Stdout.Write(out)
			}
		}
		fmt.Println("replay: the expected violation did not occur")
		return 0
	}

	if runs == 0 {
		runs = in.RunsQuick
		if tier == "thorough" {
			runs = in.RunsThor
		}
	}
	if budget == 0 {
		budget = 40
		if tier == "thorough" {
			budget = 900
		}
	}
	if workers == 0 {
		workers = runtime.NumCPU()
		if workers > 16 {
			workers = 16
		}
	}
	if workers > runs {
		workers = runs
	}
	findings := loadFindings()
	knownPrinted := map[string]bool{}
	var knownList []string
	exit := 0

	// ---- lane B: directed witnesses of listed findings (and regression cases of fixed ones)
	{
		cmd := exec.Command(bi.Worker, "witness", "--prop", prop, "--tmp", filepath.Join(tmp, "wb"))
		cmd.Env = append(os.Environ(), workerEnv(tmp, in.Flavor == "race")...)
		var stderr bytes.Buffer
		cmd.Stderr = &stderr
		out, err := cmd.Output()
		if err != nil {
			infra("lane B worker failed: %v\n%s", err, stderr.String())
		}
		for _, ln := range bytes.Split(out, []byte("\n")) {
			var l wline
			if len(ln) == 0 || json.Unmarshal(ln, &l) != nil || l.T != "witness" {
				continue
			}
			for _, v := range l.Viol {
				if f := matchKnown(findings, v); f != nil {
					if !knownPrinted[f.ID] {
						knownPrinted[f.ID] = true
						knownList = append(knownList, f.ID)
						fmt.Printf("KNOWN-FINDING: property=%s %s [%s]\n", prop, f.What, f.ID)
					}
				} else {
					// a witness that fails in a way the file does not list: report like any violation
					p := writeReplay(prop, seed, 900000+l.Run, l.Case, v)
					fmt.Printf("VIOLATION property=%s replay=%s\n", prop, p)
					fmt.Fprintf(os.Stderr, "  witness %q: clause=%s signature=%s %s\n", l.Note, v.Clause, v.Sig, v.Detail)
					exit = 1
				}
			}
		}
	}

	// ---- lane A: seeded search
	var mu sync.Mutex
	agg := sim.NewStats()
	fps := map[string]bool{}
	nontrivial := map[string]bool{}
	evaluations := 0
	var samples []json.RawMessage
	var founds []found
	var wg sync.WaitGroup
	per := (runs + workers - 1) / workers
	crashed := []string{}
	var hung []uint64
	hungHist := map[uint64][]uint64{} // per run that exceeded the liveness bound: the runs its worker process had executed before
	var fatals []fatalRun
	hangLimit := time.Duration(hangSeconds()) * time.Second
	if in.Hang > hangSeconds() && os.Getenv("VERIF_HANG_SECONDS") == "" {
		hangLimit = time.Duration(in.Hang) * time.Second // one run of this property legitimately takes long (e.g. a whole offset enumeration)
	}
	deadline := time.Now().Add(time.Duration(budget) * time.Second)
	// runWorker executes runs from, from+step, ... (count of them); it returns the
	// index of a run that exceeded the liveness bound (the worker was killed), or -1.
	runWorker := func(wi int, from uint64, count int, gen int) int64 {
		wtmp := filepath.Join(tmp, fmt.Sprintf("w%d_%d", wi, gen))
		os.MkdirAll(wtmp, 0o755)
		left := time.Until(deadline)
		if left < time.Second {
			left = time.Second
		}
		cmd := exec.Command(bi.Worker, "run", "--prop", prop, "--seed", fmt.Sprint(seed), "--tier", tier,
			"--from", fmt.Sprint(from), "--step", fmt.Sprint(workers), "--count", fmt.Sprint(count),
			"--budget-ms", fmt.Sprint(left.Milliseconds()), "--tmp", wtmp)
		cmd.Env = append(os.Environ(), workerEnv(wtmp, in.Flavor == "race")...)
		var stderr bytes.Buffer
		cmd.Stderr = &stderr
		stdout, _ := cmd.StdoutPipe()
		if err := cmd.Start(); err != nil {
			mu.Lock()
			crashed = append(crashed, fmt.Sprintf("worker %d: %v", wi, err))
			mu.Unlock()
			return -1
		}
		var begun int64 = -1
		var hist []uint64 // runs this process has completed
		var wmu sync.Mutex
		killed := int64(-1)
		stop := make(chan struct{})
		mon := newLiveMon(cmd.Process.Pid, hangLimit)
		go func() { // watchdog: a run in progress that exceeds the liveness bound (see liveMon) is a candidate hang
			tk := time.NewTicker(500 * time.Millisecond)
			defer tk.Stop()
			for {
				select {
				case <-stop:
					return
				case <-tk.C:
					wmu.Lock()
					if begun >= 0 {
						if ex, _ := mon.exceeded(); ex {
							killed = begun
							wmu.Unlock()
							cmd.Process.Kill()
							return
						}
					} else {
						mon.output() // between runs: nothing to bound
					}
					wmu.Unlock()
				}
			}
		}()
		rd := bufio.NewReaderSize(stdout, 1<<20)
		for {
			ln, err := rd.ReadBytes('\n')
			if len(ln) > 0 {
				var l wline
				if json.Unmarshal(ln, &l) == nil {
					wmu.Lock()
					mon.output()
					switch l.T {
					case "begin":
						begun = int64(l.Run)
					case "run":
						begun = -1
					}
					wmu.Unlock()
					mu.Lock()
					switch l.T {
					case "run":
						evaluations++
						fps[l.FP] = true
						if l.NT {
							nontrivial[l.FP] = true
						}
						if len(l.Viol) > 0 {
							for _, v := range l.Viol {
								founds = append(founds, found{l.Run, l.Case, v, append([]uint64{}, hist...), tier})
							}
						} else if l.Case != nil && len(samples) < 3 {
							samples = append(samples, l.Case)
						}
						hist = append(hist, l.Run)
					case "stats":
						agg.Add(l.Stats)
					case "infra":
						crashed = append(crashed, fmt.Sprintf("worker %d run %d: %s", wi, l.Run, l.Msg))
					}
					mu.Unlock()
				}
			}
			if err != nil {
				break
			}
		}
		err := cmd.Wait()
		close(stop)
		wmu.Lock()
		k := killed
		b := begun
		wmu.Unlock()
		if k >= 0 {
			mu.Lock()
			hungHist[uint64(k)] = append([]uint64{}, hist...)
			mu.Unlock()
			return k
		}
		if err != nil {
			// the Go runtime aborts the process on errors that no recover() can catch (every goroutine blocked
			// for ever, stack exhaustion, …): for a property that promises termination without crashing that is
			// a candidate violation of the run in progress, to be confirmed alone; otherwise trouble
			if fe := fatalErrorOf(stderr.String()); fe != "" && b >= 0 && livenessProps[prop] {
				mu.Lock()
				fatals = append(fatals, fatalRun{uint64(b), fe, append([]uint64{}, hist...)})
				mu.Unlock()
				return -(b + 2) // tell the caller where to resume
			}
			mu.Lock()
			crashed = append(crashed, fmt.Sprintf("worker %d exited: %v (run in progress: %d)\n%s", wi, err, b, tail(stderr.String(), 30)))
			mu.Unlock()
		}
		return -1
	}
	for wi := 0; wi < workers; wi++ {
		wg.Add(1)
		go func(wi int) {
			defer wg.Done()
			from, count := uint64(wi), per
			for gen := 0; count > 0 && gen < 20; gen++ {
				h := runWorker(wi, from, count, gen)
				if h == -1 {
					return
				}
				if h < -1 { // the process died with a fatal runtime error in run -(h+2): resume after it
					h = -(h + 2)
				} else {
					mu.Lock()
					hung = append(hung, uint64(h))
					mu.Unlock()
				}
				done := int((uint64(h)-from)/uint64(workers)) + 1
				from, count = uint64(h)+uint64(workers), count-done
				if time.Now().After(deadline) {
					return
				}
			}
		}(wi)
	}
	wg.Wait()
	// ---- lane C (cold starts), race flavour only: package-level state that is initialised lazily and without
	// synchronisation races only while it is still untouched, i.e. in the first library calls of a process. Every case
	// of this lane is executed in a fresh worker process and runs its concurrent phase first. Case indices start at
	// coldBase, so the cases are a function of (seed, index) like all others.
	coldRuns := 0
	if in.Flavor == "race" && replay == "" {
		n := 32
		coldBudget := 15 * time.Second
		if tier == "thorough" {
			n, coldBudget = 3000, 180*time.Second
		}
		if os.Getenv("VERIF_COLD_RUNS") != "" {
			n, _ = strconv.Atoi(os.Getenv("VERIF_COLD_RUNS"))
		}
		cdl := time.Now().Add(coldBudget)
		var next int64 = -1
		var cwg sync.WaitGroup
		for wi := 0; wi < workers; wi++ {
			cwg.Add(1)
			go func(wi int) {
				defer cwg.Done()
				for {
					mu.Lock()
					next++
					j := next
					mu.Unlock()
					if j >= int64(n) || time.Now().After(cdl) {
						return
					}
					i := coldBase + uint64(j)
					wtmp := filepath.Join(tmp, fmt.Sprintf("cold%d", j))
					os.MkdirAll(wtmp, 0o755)
					cmd := exec.Command(bi.Worker, "run", "--prop", prop, "--seed", fmt.Sprint(seed), "--tier", tier,
						"--from", fmt.Sprint(i), "--step", "1", "--count", "1", "--cold", "--tmp", wtmp)
					cmd.Env = append(os.Environ(), workerEnv(wtmp, true)...)
					var stderr, stdout bytes.Buffer
					cmd.Stderr, cmd.Stdout = &stderr, &stdout
					var err error
					exceeded := false
					if err = cmd.Start(); err == nil {
						// the same liveness bound as everywhere: a case that blocks or spins is stopped, executed again alone and judged there
						if exceeded = waitBounded(cmd, hangLimit); !exceeded {
							if ps := cmd.ProcessState; ps != nil && !ps.Success() {
								err = fmt.Errorf("exit status %d", ps.ExitCode())
							}
						}
					}
					out := stdout.Bytes()
					os.RemoveAll(wtmp)
					mu.Lock()
					if exceeded {
						hung = append(hung, i)
					} else if err != nil {
						crashed = append(crashed, fmt.Sprintf("cold run %d: %v\n%s", i, err, tail(stderr.String(), 20)))
					}
					for _, ln := range bytes.Split(out, []byte("\n")) {
						var l wline
						if len(ln) == 0 || json.Unmarshal(ln, &l) != nil {
							continue
						}
						switch l.T {
						case "run":
							evaluations++
							coldRuns++
							fps[l.FP] = true
							if l.NT {
								nontrivial[l.FP] = true
							}
							for _, v := range l.Viol {
								founds = append(founds, found{Run: l.Run, Case: l.Case, V: v})
							}
						case "stats":
							agg.Add(l.Stats)
						case "infra":
							crashed = append(crashed, fmt.Sprintf("cold run %d: %s", l.Run, l.Msg))
						}
					}
					mu.Unlock()
				}
			}(wi)
		}
		cwg.Wait()
	}
	if len(crashed) > 0 {
		infra("worker trouble:\n%s", strings.Join(crashed, "\n"))
	}
	// a run that exceeded the liveness bound is executed again, alone, before anything is said about it
	sort.Slice(hung, func(i, j int) bool { return hung[i] < hung[j] })
	hangsConfirmed := 0
	for hi, h := range hung {
		if hi >= 3 {
			break
		}
		gen := exec.Command(bi.Worker, "gen", "--prop", prop, "--seed", fmt.Sprint(seed), "--tier", tier, "--from", fmt.Sprint(h))
		caseJSON, err := gen.Output()
		if err != nil {
			infra("cannot regenerate hung run %d: %v", h, err)
		}
		v := sim.Violation{Prop: prop, Clause: "hang", Sig: "liveness-bound-exceeded", Detail: fmt.Sprintf("run %d did not finish within %v", h, hangLimit)}
		p := writeReplay(prop, seed, h, caseJSON, v)
		if !replayHangs(bi, in, p, tmp, hangLimit) {
			// not alone - but after what earlier cases left behind in the process? (shortest suffix of the worker's history, as for crashes)
			var with []uint64
			if hh := hungHist[h]; len(hh) > 0 && livenessProps[prop] {
				for n := 4; with == nil; n *= 4 {
					cand := hh
					if n < len(hh) {
						cand = hh[len(hh)-n:]
					}
					if replayHangs(bi, in, writeReplayHist(prop, seed, h, caseJSON, v, cand, tier), tmp, hangLimit*time.Duration(1+len(cand)/50)) {
						with = cand
					}
					if n >= len(hh) {
						break
					}
				}
			}
			if with == nil {
				fmt.Fprintf(os.Stderr, "check: run %d exceeded the liveness bound once but finished when run alone (loaded machine): not reported\n", h)
				continue
			}
			fmt.Fprintf(os.Stderr, "check: run %d does not terminate after %d earlier case(s) in the same process; the replay file lists them (process_history)\n", h, len(with))
			founds = append(founds, found{Run: h, Case: caseJSON, V: v, Hist: with, Tier: tier})
			hangsConfirmed++
			continue
		}
		if !livenessProps[prop] {
			infra("run %d of %s does not terminate (case %s); this property has no liveness clause, so this is reported as trouble of the harness or the tree, not as a violation", h, prop, p)
		}
		founds = append(founds, found{Run: h, Case: caseJSON, V: v})
		hangsConfirmed++
	}
	// a run during which the process died with a fatal runtime error: confirmed when it dies again alone
	sort.Slice(fatals, func(i, j int) bool { return fatals[i].run < fatals[j].run })
	for fi, fr := range fatals {
		if fi >= 3 {
			break
		}
		gen := exec.Command(bi.Worker, "gen", "--prop", prop, "--seed", fmt.Sprint(seed), "--tier", tier, "--from", fmt.Sprint(fr.run))
		caseJSON, err := gen.Output()
		if err != nil {
			infra("cannot regenerate run %d: %v", fr.run, err)
		}
		v := sim.Violation{Prop: prop, Clause: "process-crash", Sig: fr.what, Detail: fmt.Sprintf("during run %d the process was aborted by the Go runtime: %s", fr.run, fr.what)}
		p := writeReplay(prop, seed, fr.run, caseJSON, v)
		if again := replayFatal(bi, in, p, tmp, hangLimit); again == fr.what {
			founds = append(founds, found{Run: fr.run, Case: caseJSON, V: v})
			hangsConfirmed++
		} else if h := crashHistory(bi, in, prop, seed, fr, caseJSON, v, tier, tmp, hangLimit); h != nil {
			// the process dies in this run only after what earlier cases left behind in it (a leaked semaphore slot, say): the earlier
			// cases are part of the replayable trace
			fmt.Fprintf(os.Stderr, "check: run %d: the process is aborted (%s) only after %d earlier case(s) in the same process; the replay file lists them (process_history)\n", fr.run, fr.what, len(h))
			founds = append(founds, found{Run: fr.run, Case: caseJSON, V: v, Hist: h, Tier: tier})
			hangsConfirmed++
		} else {
			fmt.Fprintf(os.Stderr, "check: run %d: the process was aborted (%s) inside a long-lived worker but not when the run is executed alone\n", fr.run, fr.what)
			hung = append(hung, fr.run)
		}
	}
	if len(hung) >= 3 && hangsConfirmed == 0 {
		// several runs stopped making progress inside a long-lived worker but each finishes when executed alone:
		// not a property violation that replays, but not a loaded machine either
		infra("%d runs exceeded the liveness bound inside long-lived worker processes (first: run %d) although each finishes alone: something in the process outlives a run (a leaked lock, semaphore or goroutine?)", len(hung), hung[0])
	}

	// ---- classify, minimise, replay
	sort.Slice(founds, func(i, j int) bool { return founds[i].Run < founds[j].Run })
	seenKey := map[string]bool{}
	violations := 0
	for _, f := range founds {
		if seenKey[f.V.Key()] {
			continue
		}
		seenKey[f.V.Key()] = true
		if kf := matchKnown(findings, f.V); kf != nil {
			if !knownPrinted[kf.ID] {
				knownPrinted[kf.ID] = true
				knownList = append(knownList, kf.ID)
				fmt.Printf("KNOWN-FINDING: property=%s %s [%s]\n", prop, kf.What, kf.ID)
			}
			continue
		}
		violations++
		if violations > 5 {
			fmt.Fprintf(os.Stderr, "  (not minimised) run=%d clause=%s signature=%s %s\n", f.Run, f.V.Clause, f.V.Sig, f.V.Detail)
			exit = 1
			continue
		}
		p, ok := minimiseAndReplay(bi, in, prop, seed, f, tmp)
		if !ok {
			fmt.Fprintf(os.Stderr, "UNREPRODUCIBLE property=%s run=%d clause=%s signature=%s (%s) case=%s\n", prop, f.Run, f.V.Clause, f.V.Sig, f.V.Detail, p)
			if exit == 0 {
				exit = 2
			}
			continue
		}
		fmt.Printf("VIOLATION property=%s replay=%s\n", prop, p)
		fmt.Fprintf(os.Stderr, "  run=%d clause=%s signature=%s %s\n", f.Run, f.V.Clause, f.V.Sig, f.V.Detail)
		exit = 1
	}

	// ---- evidence
	wall := time.Since(start).Seconds()
	sort.Strings(knownList)
	cov := map[string]any{
		"evaluations":            evaluations,
		"distinct_nontrivial":    len(nontrivial),
		"distinct_fingerprints":  len(fps),
		"rule":                   in.Rule,
		"samples":                samples,
		"events_simulated_time":  agg.Events,
		"ops_by_kind":            agg.Ops,
		"faults_fired":           agg.Faults,
		"probes":                 agg.Probes,
		"runs_per_hour":          int(float64(evaluations) / wall * 3600),
		"seeds_per_hour":         int(float64(evaluations) / wall * 3600),
		"workers":                workers,
		"flavor":                 in.Flavor,
		"map_seam":               bi.MapSeam,
		"real_vs_stub":           in.RealVsStub,
		"known_findings_printed": knownList,
		"cold_start_runs":        coldRuns,
		"exhaustive":             false,
		"tree":                   hashTree(),
	}
	// the seams of the instrumented copy, as counted by the instrumenter on THIS tree
	if len(bi.Report) > 0 {
		var rep struct {
			MapSites   []string `json:"map_range_sites_rewritten"`
			Refused    []string `json:"map_range_sites_refused"`
			LockSites  []string `json:"lock_types_replaced"`
			IOSites    []string `json:"file_system_calls_wrapped"`
			Points     int      `json:"preemption_points_inserted"`
			ClockSites []string `json:"clock_reads_replaced"`
		}
		if json.Unmarshal(bi.Report, &rep) == nil {
			cov["seams"] = map[string]any{
				"map_iteration_sites_owned":   len(rep.MapSites),
				"map_iteration_sites_refused": len(rep.Refused),
				"lock_types_replaced":         len(rep.LockSites),
				"file_system_calls_wrapped":   len(rep.IOSites),
				"preemption_points_inserted":  rep.Points,
				"clock_reads_replaced":        len(rep.ClockSites),
				"stubbed":                     "map iteration order (verifrt.Keys), sync.RWMutex/Mutex (wrapper around the real mutex), time.Now (simulated clock: steady/jumping/stuck), os and zip.Writer calls (pass-through wrappers that can yield or fail); everything else is the library's real code",
			}
		}
	}
	if len(samples) == 0 {
		cov["samples"] = []any{"(every explored case ended in a violation or known finding; see replays)"}
	}
	if bi.Note != "" {
		cov["build_note"] = bi.Note
	}
	if v, ok := agg.Probes["evaluations"]; ok && v > 0 {
		cov["runs"] = evaluations
		cov["evaluations"] = v // property counts finer-grained evaluations (e.g. faulted saves)
	}
	ev := map[string]any{
		"property_id": prop, "tier": tier, "seed": seed, "level": in.Level,
		"coverage": cov, "assumptions": in.Assumptions, "wall_s": wall, "violations": violations,
	}
	eb, _ := json.MarshalIndent(ev, "", " ")
	os.MkdirAll(filepath.Join(outDir, "evidence"), 0o755)
	if err := os.WriteFile(filepath.Join(outDir, "evidence", prop+".json"), eb, 0o644); err != nil {
		infra("evidence: %v", err)
	}
	fmt.Printf("check %s tier=%s seed=%d: %d runs, %d distinct non-trivial, %d violations, %d known findings, %.1fs\n",
		prop, tier, seed, evaluations, len(nontrivial), violations, len(knownList), wall)
	return exit
}

func tail(s string, n int) string {
	ls := strings.Split(strings.TrimRight(s, "\n"), "\n")
	if len(ls) > n {
		ls = ls[len(ls)-n:]
	}
	return strings.Join(ls, "\n")
}

func writeReplay(prop string, seed, runIdx uint64, c json.RawMessage, v sim.Violation) string {
	var m map[string]any
	dec := json.NewDecoder(bytes.NewReader(c))
	dec.UseNumber() // 64-bit seeds must survive the round trip exactly
	dec.Decode(&m)
	if m == nil {
		m = map[string]any{}
	}
	m["expect"] = v
	b, _ := json.MarshalIndent(m, "", " ")
	dir := filepath.Join(outDir, "replays")
	os.MkdirAll(dir, 0o755)
	p := filepath.Join(dir, fmt.Sprintf("%s-%d-%d.json", prop, seed, runIdx))
	os.WriteFile(p, b, 0o644)
	return p
}

type fatalRun struct {
	run  uint64
	what string
	hist []uint64 // the runs the same worker process had executed before
}

// crashHistory looks for the shortest suffix of the worker's earlier runs after which the case makes the process die the same way
// again (doubling the suffix length: at most log2(n)+1 replays). nil if even the whole history does not reproduce it.
func crashHistory(bi *buildInfo, in *info, prop string, seed uint64, fr fatalRun, caseJSON json.RawMessage, v sim.Violation, tier, tmp string, limit time.Duration) []uint64 {
	if len(fr.hist) == 0 {
		return nil
	}
	try := func(h []uint64) bool {
		p := writeReplayHist(prop, seed, fr.run, caseJSON, v, h, tier)
		return replayFatal(bi, in, p, tmp, limit*time.Duration(1+len(h)/50)) == fr.what
	}
	for n := 4; ; n *= 4 {
		if n >= len(fr.hist) {
			if try(fr.hist) {
				return fr.hist
			}
			return nil
		}
		if h := fr.hist[len(fr.hist)-n:]; try(h) {
			return h
		}
	}
}

// fatalErrorOf extracts the Go runtime's fatal error line from a worker's stderr ("" if none).
func fatalErrorOf(stderr string) string {
	for _, ln := range strings.Split(stderr, "\n") {
		if strings.HasPrefix(ln, "fatal error: ") {
			return strings.TrimSpace(strings.TrimPrefix(ln, "fatal error: "))
		}
		if strings.HasPrefix(ln, "runtime: goroutine stack exceeds") {
			return "stack overflow"
		}
	}
	return ""
}

// replayFatal executes a case alone and returns the fatal runtime error it dies with ("" if it does not).
func replayFatal(bi *buildInfo, in *info, file, tmp string, limit time.Duration) string {
	cmd := exec.Command(bi.Worker, "replay", "--file", file, "--tmp", filepath.Join(tmp, "fatal"))
	cmd.Env = append(os.Environ(), workerEnv(tmp, in.Flavor == "race")...)
	var stderr bytes.Buffer
	cmd.Stderr = &stderr
	if err := cmd.Start(); err != nil {
		return ""
	}
	if waitBounded(cmd, limit) {
		return ""
	}
	return fatalErrorOf(stderr.String())
}

// ---- liveness bound --------------------------------------------------------------------
//
// "Does not terminate" is judged on what the worker process does, not on the wall clock alone (a loaded
// machine stretches wall time arbitrarily, and a case that is slow but finite - a quadratic accessor on a
// part repeated 10 000 times - is not a hang):
//
//	blocked:  no output for `limit` AND the process consumed no CPU time during the last `limit`
//	          (every goroutine waits for something that never comes);
//	spinning: the process consumed cpuFactor x `limit` of CPU time since its last output (a loop that
//	          makes no progress; with the default 20 s that is 120 CPU-seconds for one case, about
//	          10 000 times the median case);
//	hard cap: no output for 30 x `limit` of wall time.
const cpuFactor = 6

type liveMon struct {
	pid        int
	limit      time.Duration
	lastOut    time.Time
	cpuAtOut   time.Duration
	lastCPU    time.Duration
	lastCPUChg time.Time
}

func newLiveMon(pid int, limit time.Duration) *liveMon {
	now := time.Now()
	c := procCPU(pid)
	return &liveMon{pid: pid, limit: limit, lastOut: now, cpuAtOut: c, lastCPU: c, lastCPUChg: now}
}

// output notes that the worker said something (progress).
func (m *liveMon) output() {
	m.lastOut = time.Now()
	m.cpuAtOut = procCPU(m.pid)
}

// exceeded is polled; it reports whether the bound is exceeded and why.
func (m *liveMon) exceeded() (bool, string) {
	now := time.Now()
	c := procCPU(m.pid)
	if c < 0 { // no /proc: fall back to the wall clock with a generous factor
		if now.Sub(m.lastOut) > cpuFactor*m.limit {
			return true, "wall"
		}
		return false, ""
	}
	if c-m.lastCPU >= 30*time.Millisecond {
		m.lastCPU, m.lastCPUChg = c, now
	}
	switch {
	case c-m.cpuAtOut >= cpuFactor*m.limit:
		return true, "spinning"
	case now.Sub(m.lastOut) > m.limit && now.Sub(m.lastCPUChg) > m.limit:
		return true, "blocked"
	case now.Sub(m.lastOut) > 30*m.limit:
		return true, "wall"
	}
	return false, ""
}

// procCPU returns user+system CPU time of a process (all threads), or -1.
func procCPU(pid int) time.Duration {
	b, err := os.ReadFile(fmt.Sprintf("/proc/%d/stat", pid))
	if err != nil {
		return -1
	}
	i := bytes.LastIndexByte(b, ')')
	if i < 0 {
		return -1
	}
	f := strings.Fields(string(b[i+1:]))
	if len(f) < 13 {
		return -1
	}
	ut, e1 := strconv.ParseInt(f[11], 10, 64)
	st, e2 := strconv.ParseInt(f[12], 10, 64)
	if e1 != nil || e2 != nil {
		return -1
	}
	return time.Duration(ut+st) * (time.Second / 100) // USER_HZ is 100 on Linux
}

// waitBounded waits for cmd (already started) under the liveness bound; it reports whether the bound was
// exceeded (the process is then killed).
func waitBounded(cmd *exec.Cmd, limit time.Duration) (exceeded bool) {
	done := make(chan error, 1)
	go func() { done <- cmd.Wait() }()
	m := newLiveMon(cmd.Process.Pid, limit)
	tk := time.NewTicker(250 * time.Millisecond)
	defer tk.Stop()
	for {
		select {
		case <-done:
			return false
		case <-tk.C:
			if ex, _ := m.exceeded(); ex {
				cmd.Process.Kill()
				<-done
				return true
			}
		}
	}
}

// coldBase is the first case index of the cold-start lane.
const coldBase = uint64(5_000_000)

// livenessProps: properties whose statement includes termination.
var livenessProps = map[string]bool{"C06": true}

func hangSeconds() int {
	if v, err := strconv.Atoi(os.Getenv("VERIF_HANG_SECONDS")); err == nil && v > 0 {
		return v
	}
	return 20
}

// replayHangs executes a case alone and reports whether it exceeds the bound.
func replayHangs(bi *buildInfo, in *info, file, tmp string, limit time.Duration) bool {
	cmd := exec.Command(bi.Worker, "replay", "--file", file, "--tmp", filepath.Join(tmp, "hang"))
	cmd.Env = append(os.Environ(), workerEnv(tmp, in.Flavor == "race")...)
	if err := cmd.Start(); err != nil {
		return false
	}
	return waitBounded(cmd, limit)
}

// minimiseAndReplay shrinks the failing case in a worker process, replays the
// result in a fresh process and returns the replay file.
func minimiseAndReplay(bi *buildInfo, in *info, prop string, seed uint64, f found, tmp string) (string, bool) {
	orig := writeReplay(prop, seed, f.Run, f.Case, f.V)
	if (f.V.Clause == "process-crash" || f.V.Clause == "hang") && len(f.Hist) > 0 {
		return writeReplayHist(prop, seed, f.Run, f.Case, f.V, f.Hist, f.Tier), true // confirmed with this history by crashHistory
	}
	if f.V.Clause == "hang" || f.V.Clause == "process-crash" {
		// already confirmed by running alone; shrinking a non-terminating case would need a timeout per candidate
		return orig, true
	}
	small := orig + ".min"
	env := append(os.Environ(), workerEnv(filepath.Join(tmp, "shrink"), in.Flavor == "race")...)
	os.MkdirAll(filepath.Join(tmp, "shrink"), 0o755)
	cmd := exec.Command(bi.Worker, "shrink", "--file", orig, "--out", small, "--tmp", filepath.Join(tmp, "shrink", "t"))
	cmd.Env = env
	done := make(chan error, 1)
	go func() { _, err := cmd.CombinedOutput(); done <- err }()
	select {
	case err := <-done:
		if err == nil {
			if b, e := os.ReadFile(small); e == nil {
				os.WriteFile(orig, b, 0o644)
			}
		}
	case <-time.After(150 * time.Second):
		cmd.Process.Kill()
	}
	os.Remove(small)
	// replay in a fresh process: must fail the same way
	// The schedule, map orders and faults of a case replay exactly. The Go race
	// detector itself, however, misses a given race in a few percent of
	// executions (shadow-cell eviction): a case whose expected violation is a
	// race report is therefore executed up to three times per attempt.
	tries := 1
	if in.Flavor == "race" && f.V.Clause == "race" {
		tries = 3
	}
	for attempt := 0; attempt < 2; attempt++ {
		for k := 0; k < tries; k++ {
			rc := exec.Command(bi.Worker, "replay", "--file", orig, "--tmp", filepath.Join(tmp, "shrink", fmt.Sprintf("r%d_%d_%d", f.Run, attempt, k)))
			rc.Env = env
			out, err := rc.CombinedOutput()
			if ee, ok := err.(*exec.ExitError); ok && ee.ExitCode() == 1 {
				return orig, true
			}
			// say what the replay did instead (exit status and the end of its output), so that an UNREPRODUCIBLE line can be understood
			fmt.Fprintf(os.Stderr, "check: replay of run %d (attempt %d, try %d) did not show %s/%s: %v; output ends: %s\n", f.Run, attempt, k, f.V.Clause, f.V.Sig, err, tail(string(out), 3))
		}
		// the minimised case does not replay: fall back to the unminimised one
		if attempt == 0 {
			writeReplay(prop, seed, f.Run, f.Case, f.V)
		}
	}
	// The case alone does not show the violation. It may need what earlier cases left behind in the worker process (state of
	// the library that outlives a document and that no reset hook knows). Cases are functions of (seed, index), so the history
	// of the process is part of a replayable trace: execute the earlier cases, then this one, in one fresh process.
	if len(f.Hist) > 0 {
		withHist := func(h []uint64) bool {
			writeReplayHist(prop, seed, f.Run, f.Case, f.V, h, f.Tier)
			rc := exec.Command(bi.Worker, "replay", "--file", orig, "--tmp", filepath.Join(tmp, "shrink", fmt.Sprintf("h%d_%d", f.Run, len(h))))
			rc.Env = env
			_, err := rc.CombinedOutput()
			ee, ok := err.(*exec.ExitError)
			return ok && ee.ExitCode() == 1
		}
		if withHist(f.Hist) {
			best := f.Hist
			// shortest suffix of the history that still shows it (doubling), then drop single cases from the front part
			for n := 1; n < len(best); n *= 2 {
				if cand := best[len(best)-n:]; withHist(cand) {
					best = cand
					break
				}
			}
			// ddmin over the remaining history: drop chunks of halving size while the violation persists (bounded number of replays)
			tries := 0
			for chunk := (len(best) + 1) / 2; chunk >= 1 && tries < 60; {
				removed := false
				for i := 0; i+chunk <= len(best) && len(best) > 1 && tries < 60; {
					cand := append(append([]uint64{}, best[:i]...), best[i+chunk:]...)
					tries++
					if len(cand) > 0 && withHist(cand) {
						best, removed = cand, true
					} else {
						i += chunk
					}
				}
				if chunk == 1 && !removed {
					break
				}
				if chunk > 1 {
					chunk = (chunk + 1) / 2
				} else if !removed {
					break
				}
			}
			if withHist(best) { // leaves the final file on disk
				fmt.Fprintf(os.Stderr, "check: run %d shows %s/%s only after %d earlier case(s) in the same process; the replay file lists them (process_history)\n", f.Run, f.V.Clause, f.V.Sig, len(best))
				return orig, true
			}
		}
		writeReplay(prop, seed, f.Run, f.Case, f.V)
	}
	return orig, false
}

// writeReplayHist is writeReplay with the process history the case needs.
func writeReplayHist(prop string, seed, runIdx uint64, c json.RawMessage, v sim.Violation, hist []uint64, tier string) string {
	var m map[string]any
	dec := json.NewDecoder(bytes.NewReader(c))
	dec.UseNumber()
	dec.Decode(&m)
	if m == nil {
		m = map[string]any{}
	}
	m["expect"] = v
	m["process_history"] = hist
	m["process_history_tier"] = tier
	b, _ := json.MarshalIndent(m, "", " ")
	dir := filepath.Join(outDir, "replays")
	os.MkdirAll(dir, 0o755)
	p := filepath.Join(dir, fmt.Sprintf("%s-%d-%d.json", prop, seed, runIdx))
	os.WriteFile(p, b, 0o644)
	return p
}

// ---- determinism self-test ----------------------------------------------------------

func selftestDeterminism(args []string) int {
	propsList := args
	base := ensureWorker("instr")
	if len(propsList) == 0 {
		out, _ := exec.Command(base.Worker, "list").Output()
		propsList = strings.Fields(string(out))
	}
	bad := 0
	for _, p := range propsList {
		in := getInfo(base.Worker, p)
		bi := base
		if in.Flavor == "race" {
			bi = ensureWorker("race")
		}
		var ref string
		for _, procs := range []string{"1", "4", "16"} {
			for rep := 0; rep < 2; rep++ {
				tmp := mkScratch("verif-det-")
				cmd := exec.Command(bi.Worker, "fp", "--prop", p, "--seed", "7", "--count", "48", "--tmp", tmp)
				cmd.Env = append(append(os.Environ(), workerEnv(tmp, in.Flavor == "race")...), "GOMAXPROCS="+procs)
				out, err := cmd.Output()
				os.RemoveAll(tmp)
				if err != nil {
					fmt.Printf("%s: worker failed: %v\n", p, err)
					bad++
					continue
				}
				if ref == "" {
					ref = string(out)
				} else if ref != string(out) {
					fmt.Printf("%s: NONDETERMINISTIC at GOMAXPROCS=%s rep=%d\n", p, procs, rep)
					a, b := strings.Split(ref, "\n"), strings.Split(string(out), "\n")
					for i := range a {
						if i < len(b) && a[i] != b[i] {
							fmt.Printf("   %s\n   %s\n", a[i], b[i])
							break
						}
					}
					bad++
				}
			}
		}
		fmt.Printf("%s: 6 executions x 48 runs compared\n", p)
	}
	if bad > 0 {
		return 2
	}
	fmt.Println("determinism self-test passed")
	return 0
}

var _ = io.Discard
