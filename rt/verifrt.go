// Package verifrt is copied by /verif/cmd/instrument into the scratch copy of
// wordZero as pkg/verifrt. The rewritten library calls Keys for every
// range-over-map and uses RWMutex/Mutex instead of the sync types; the
// simulator installs the hooks. With no hooks installed everything behaves
// like the original code (native map order, plain locks).
package verifrt

import (
	"archive/zip"
	"io"
	"os"
	"reflect"
	"sort"
	"sync"
	"sync/atomic"
	"time"
	"unsafe"
)

// KeysHook, when set, is asked for the order in which n (>= 2) sorted keys
// are to be visited: it returns a permutation of 0..n-1, or nil for sorted
// order. It is installed before any task starts and never changed while
// tasks run.
var KeysHook func(n int) []int

// Native, when true, makes Keys return Go's own iteration order untouched.
var Native bool

// KeysCalls counts Keys calls that had a choice to make (n >= 2).
var KeysCalls int64

// Keys returns the keys of m in the order the simulator decides.
func Keys[K comparable, V any](m map[K]V) []K {
	keys := make([]K, 0, len(m))
	for k := range m {
		keys = append(keys, k)
	}
	if len(keys) < 2 || Native {
		return keys
	}
	sortKeys(keys)
	count()
	if h := KeysHook; h != nil {
		if p := h(len(keys)); p != nil && len(p) == len(keys) {
			out := make([]K, len(keys))
			for i, j := range p {
				out[i] = keys[j]
			}
			return out
		}
	}
	return keys
}

//go:norace
func count() { KeysCalls++ }

func sortKeys[K comparable](keys []K) {
	switch ks := any(keys).(type) {
	case []string:
		sort.Strings(ks)
		return
	case []int:
		sort.Ints(ks)
		return
	}
	kind := reflect.TypeOf(keys).Elem().Kind()
	sort.SliceStable(keys, func(i, j int) bool {
		a, b := reflect.ValueOf(keys[i]), reflect.ValueOf(keys[j])
		switch kind {
		case reflect.String:
			return a.String() < b.String()
		case reflect.Int, reflect.Int8, reflect.Int16, reflect.Int32, reflect.Int64:
			return a.Int() < b.Int()
		case reflect.Uint, reflect.Uint8, reflect.Uint16, reflect.Uint32, reflect.Uint64:
			return a.Uint() < b.Uint()
		}
		return sprint(a) < sprint(b)
	})
}

func sprint(v reflect.Value) string {
	// deterministic for the comparable kinds that occur as map keys
	switch v.Kind() {
	case reflect.Bool:
		if v.Bool() {
			return "1"
		}
		return "0"
	case reflect.Struct:
		s := ""
		for i := 0; i < v.NumField(); i++ {
			s += sprint(v.Field(i)) + "\x00"
		}
		return s
	case reflect.String:
		return v.String()
	case reflect.Int, reflect.Int8, reflect.Int16, reflect.Int32, reflect.Int64:
		return string(rune(v.Int()))
	}
	return v.Type().String()
}

// ---- lock seam -------------------------------------------------------------

// LockHooks are installed by the simulator. Acquire is called before the real
// lock call and returns only when the shadow state says the real call will not
// block; Released is called after the real unlock.
var (
	AcquireHook  func(st *LockState, write bool)
	ReleasedHook func(st *LockState, write bool)
)

// LockState is the shadow ownership state of one lock. It is read and written
// only inside //go:norace functions, by whichever task holds the baton.
type LockState struct {
	Writer  bool
	Readers int
	// Waiting counts tasks blocked in Lock. As with sync.RWMutex, a pending writer keeps new readers out (so that it
	// eventually gets the lock) - which is what makes a recursive read lock deadlock when a writer arrives in between.
	Waiting int
}

// Free reports whether a lock request of the given kind would not block.
//
//go:norace
func (s *LockState) Free(write bool) bool {
	if write {
		return !s.Writer && s.Readers == 0
	}
	return !s.Writer && s.Waiting == 0
}

// FreeIgnoringWaiters is Free without the writer-preference rule (used by the waiting writer itself).
//
//go:norace
func (s *LockState) FreeIgnoringWaiters(write bool) bool {
	if write {
		return !s.Writer && s.Readers == 0
	}
	return !s.Writer
}

// AddWaiting adjusts the number of writers blocked in Lock.
//
//go:norace
func (s *LockState) AddWaiting(d int) { s.Waiting += d }

//go:norace
func (s *LockState) take(write bool) {
	if write {
		s.Writer = true
	} else {
		s.Readers++
	}
}

//go:norace
func (s *LockState) drop(write bool) {
	if write {
		s.Writer = false
	} else if s.Readers > 0 {
		s.Readers--
	}
}

// Ptr identifies the lock for the scheduler's blocked-on bookkeeping.
func (s *LockState) Ptr() unsafe.Pointer { return unsafe.Pointer(s) }

// RWMutex replaces sync.RWMutex in the instrumented copy.
type RWMutex struct {
	mu sync.RWMutex
	st LockState
}

func (m *RWMutex) Lock() {
	if h := AcquireHook; h != nil {
		h(&m.st, true)
	}
	m.st.take(true)
	m.mu.Lock()
}

func (m *RWMutex) Unlock() {
	m.mu.Unlock()
	m.st.drop(true)
	if h := ReleasedHook; h != nil {
		h(&m.st, true)
	}
}

func (m *RWMutex) RLock() {
	if h := AcquireHook; h != nil {
		h(&m.st, false)
	}
	m.st.take(false)
	m.mu.RLock()
}

func (m *RWMutex) RUnlock() {
	m.mu.RUnlock()
	m.st.drop(false)
	if h := ReleasedHook; h != nil {
		h(&m.st, false)
	}
}

func (m *RWMutex) TryLock() bool {
	if !m.st.Free(true) {
		return false
	}
	m.st.take(true)
	m.mu.Lock()
	return true
}

func (m *RWMutex) TryRLock() bool {
	if !m.st.Free(false) {
		return false
	}
	m.st.take(false)
	m.mu.RLock()
	return true
}

func (m *RWMutex) RLocker() sync.Locker { return (*rlocker)(m) }

type rlocker RWMutex

func (r *rlocker) Lock()   { (*RWMutex)(r).RLock() }
func (r *rlocker) Unlock() { (*RWMutex)(r).RUnlock() }

// Mutex replaces sync.Mutex in the instrumented copy.
type Mutex struct {
	mu sync.Mutex
	st LockState
}

func (m *Mutex) Lock() {
	if h := AcquireHook; h != nil {
		h(&m.st, true)
	}
	m.st.take(true)
	m.mu.Lock()
}

func (m *Mutex) Unlock() {
	m.mu.Unlock()
	m.st.drop(true)
	if h := ReleasedHook; h != nil {
		h(&m.st, true)
	}
}

func (m *Mutex) TryLock() bool {
	if !m.st.Free(true) {
		return false
	}
	m.st.take(true)
	m.mu.Lock()
	return true
}

// Once replaces sync.Once in the instrumented copy. The function of Do runs library code with preemption points in it: a task
// that loses the baton there keeps this scheduler-aware lock, so a second task calling Do waits as a blocked task of the
// simulation (with sync.Once it would block for real while holding the baton, and the run would never end).
type Once struct {
	done uint32
	m    Mutex
}

func (o *Once) Do(f func()) {
	if atomic.LoadUint32(&o.done) == 1 {
		return
	}
	o.m.Lock()
	defer o.m.Unlock()
	if o.done == 0 {
		defer atomic.StoreUint32(&o.done, 1)
		f()
	}
}

// ---- file-system seam -----------------------------------------------------------
//
// In the instrumented copy every os.Create / OpenFile / Open / Rename / MkdirAll /
// ReadFile / WriteFile / Remove of the library goes through these wrappers. The
// simulator makes each call a scheduler yield point (so that two tasks can
// interleave INSIDE Save or Open, at the points where the real world can
// interleave them) and may make a call fail (a failing system call injected at a
// chosen position). With no hooks installed they are the plain os calls.

// IOHook is called before every file-system call (kind, path).
var IOHook func(kind, path string)

// IOFault may return an error that the call then returns without touching the file system.
var IOFault func(kind, path string) error

func ioPoint(kind, path string) error {
	if h := IOHook; h != nil {
		h(kind, path)
	}
	if f := IOFault; f != nil {
		return f(kind, path)
	}
	return nil
}

func OsCreate(name string) (*os.File, error) {
	if err := ioPoint("create", name); err != nil {
		return nil, &os.PathError{Op: "open", Path: name, Err: err}
	}
	return os.Create(name)
}

func OsOpenFile(name string, flag int, perm os.FileMode) (*os.File, error) {
	if err := ioPoint("openfile", name); err != nil {
		return nil, &os.PathError{Op: "open", Path: name, Err: err}
	}
	return os.OpenFile(name, flag, perm)
}

func OsOpen(name string) (*os.File, error) {
	if err := ioPoint("open", name); err != nil {
		return nil, &os.PathError{Op: "open", Path: name, Err: err}
	}
	return os.Open(name)
}

func OsRename(oldpath, newpath string) error {
	if err := ioPoint("rename", newpath); err != nil {
		return &os.LinkError{Op: "rename", Old: oldpath, New: newpath, Err: err}
	}
	return os.Rename(oldpath, newpath)
}

func OsMkdirAll(path string, perm os.FileMode) error {
	if err := ioPoint("mkdirall", path); err != nil {
		return &os.PathError{Op: "mkdir", Path: path, Err: err}
	}
	return os.MkdirAll(path, perm)
}

func OsReadFile(name string) ([]byte, error) {
	if err := ioPoint("readfile", name); err != nil {
		return nil, &os.PathError{Op: "open", Path: name, Err: err}
	}
	return os.ReadFile(name)
}

func OsWriteFile(name string, data []byte, perm os.FileMode) error {
	if err := ioPoint("writefile", name); err != nil {
		return &os.PathError{Op: "open", Path: name, Err: err}
	}
	return os.WriteFile(name, data, perm)
}

func OsRemove(name string) error {
	if err := ioPoint("remove", name); err != nil {
		return &os.PathError{Op: "remove", Path: name, Err: err}
	}
	return os.Remove(name)
}

// ZIP entry boundaries (yield points; a fault here is an error of the underlying writer in the real world,
// which the byte-level faults of the disk model cover, so none is injected).

func ZipCreate(zw *zip.Writer, name string) (io.Writer, error) {
	if h := IOHook; h != nil {
		h("zip-create", name)
	}
	return zw.Create(name)
}

func ZipCreateHeader(zw *zip.Writer, fh *zip.FileHeader) (io.Writer, error) {
	if h := IOHook; h != nil {
		h("zip-create", fh.Name)
	}
	return zw.CreateHeader(fh)
}

func ZipClose(zw *zip.Writer) error {
	if h := IOHook; h != nil {
		h("zip-close", "")
	}
	return zw.Close()
}

// ---- write-level and close-level fault points ----------------------------------------
//
// The writer a package is written through (the argument of zip.NewWriter) is wrapped, so that one Write
// call can be made to fail - once, with the calls after it succeeding again, which the kernel-level
// file-size limit cannot do. Closing an *os.File can be made to report an error the way a file system
// with delayed allocation, a quota or a network file system does: the data written last never reached
// the medium. Neither is a yield point of the scheduler (schedules are unchanged by them).

// WriteFault, when set, is asked before every Write of n bytes on a wrapped writer; it returns how many
// bytes are passed on to the real writer and the error the call returns (a nil error lets the call proceed).
var WriteFault func(n int) (int, error)

type faultWriter struct{ w io.Writer }

// Writer wraps the writer a package is written to.
func Writer(w io.Writer) io.Writer { return &faultWriter{w} }

func (x *faultWriter) Write(p []byte) (int, error) {
	if f := WriteFault; f != nil {
		if k, err := f(len(p)); err != nil {
			if k > len(p) {
				k = len(p)
			}
			if k > 0 {
				if m, werr := x.w.Write(p[:k]); werr != nil {
					return m, werr
				}
			}
			return k, err
		}
	}
	return x.w.Write(p)
}

// FileClose closes f. An injected failure means: close(2) reports that delayed writes were lost, and the
// tail of the file is indeed gone.
func FileClose(f *os.File) error {
	name := f.Name()
	if flt := IOFault; flt != nil {
		if err := flt("file-close", name); err != nil {
			if st, e := f.Stat(); e == nil && st.Mode().IsRegular() && st.Size() > 0 {
				_ = f.Truncate(st.Size() - (st.Size()+3)/4)
			}
			_ = f.Close()
			return &os.PathError{Op: "close", Path: name, Err: err}
		}
	}
	return f.Close()
}

// ---- preemption points ------------------------------------------------------------------
//
// In the instrumented copy every function body and every loop body of the library starts with Point().
// The scheduler may take the baton away there (decided by the run's PRNG), so that tasks interleave
// inside library functions and not only at lock operations, file-system calls and operation boundaries.
// That matters twice: semantic interleavings inside one call become reachable, and the race detector
// sees the two accesses of a race before an unrelated synchronisation inside the standard library
// (regexp's and fmt's sync.Pool) has accidentally ordered them.

// ---- channel seam ------------------------------------------------------------------
//
// A channel operation of the library that cannot proceed at once must not block the goroutine for real while it holds the
// simulator's baton: the peer it waits for may be another task, which then never runs. PollHook, when installed, is asked
// after each fruitless attempt; it hands the baton to the other tasks and returns true, or returns false when the caller is
// no scheduled task (or has polled for too long: the peer is a goroutine the library started itself) - then the operation
// blocks for real, as it would without the simulator.
var PollHook func() bool

// Recv is <-ch.
func Recv[T any](ch <-chan T) T {
	v, _ := Recv2(ch)
	return v
}

// Recv2 is v, ok := <-ch.
func Recv2[T any](ch <-chan T) (T, bool) {
	for {
		select {
		case v, ok := <-ch:
			return v, ok
		default:
		}
		if h := PollHook; h == nil || !h() {
			v, ok := <-ch
			return v, ok
		}
	}
}

// Send is ch <- v.
func Send[T any](ch chan<- T, v T) {
	for {
		select {
		case ch <- v:
			return
		default:
		}
		if h := PollHook; h == nil || !h() {
			ch <- v
			return
		}
	}
}

// WaitGroup replaces sync.WaitGroup in the instrumented copy: Wait polls a shadow counter and hands the baton on while it is
// not zero (those it waits for may be other tasks), then calls the real Wait, which returns at once and gives the race detector
// the real happens-before edges.
type WaitGroup struct {
	wg sync.WaitGroup
	n  int64
}

func (w *WaitGroup) Add(d int) {
	atomic.AddInt64(&w.n, int64(d))
	w.wg.Add(d)
}

func (w *WaitGroup) Done() {
	atomic.AddInt64(&w.n, -1)
	w.wg.Done()
}

func (w *WaitGroup) Wait() {
	for atomic.LoadInt64(&w.n) > 0 {
		if h := PollHook; h == nil || !h() {
			break
		}
	}
	w.wg.Wait()
}

// PointHook is called at every preemption point while a simulation is running.
var PointHook func()

// Point is a preemption point.
func Point() {
	if h := PointHook; h != nil {
		h()
	}
}

// ---- clock seam -----------------------------------------------------------------------------
//
// In the instrumented copy time.Now() of the library is verifrt.Now(): while a simulation runs, the library
// reads the simulator's clock (a function of the run's seed and of how often the clock was read), so the
// timestamps it writes - and with them the exact bytes and lengths of the packages - replay exactly, and the
// simulator can make the clock jump or stand still.

// NowHook, when set, replaces the wall clock.
var NowHook func() time.Time

// Now is time.Now() behind the seam.
func Now() time.Time {
	if h := NowHook; h != nil {
		return h()
	}
	return time.Now()
}
