// Package inspect is an independent reader of OOXML packages: archive/zip plus
// a small generic XML tree built on encoding/xml's tokenizer. It shares no code
// with the library under test and never calls it. All oracles that look at
// saved bytes go through this package.
package inspect

import (
	"archive/zip"
	"bytes"
	"crypto/sha256"
	"encoding/hex"
	"encoding/xml"
	"fmt"
	"io"
	"path"
	"sort"
	"strings"
	"unicode/utf8"
)

// Namespace URIs.
const (
	NsW    = "http://schemas.openxmlformats.org/wordprocessingml/2006/main"
	NsR    = "http://schemas.openxmlformats.org/officeDocument/2006/relationships"
	NsRel  = "http://schemas.openxmlformats.org/package/2006/relationships"
	NsCT   = "http://schemas.openxmlformats.org/package/2006/content-types"
	NsA    = "http://schemas.openxmlformats.org/drawingml/2006/main"
	NsWP   = "http://schemas.openxmlformats.org/drawingml/2006/wordprocessingDrawing"
	NsPic  = "http://schemas.openxmlformats.org/drawingml/2006/picture"
	RelDoc = NsR + "/officeDocument"
	RelImg = NsR + "/image"
	RelHdr = NsR + "/header"
	RelFtr = NsR + "/footer"
	CTMain = "application/vnd.openxmlformats-officedocument.wordprocessingml.document.main+xml"
)

// Package is a parsed ZIP container.
type Package struct {
	Names []string          // entry names in archive order
	Parts map[string][]byte // last entry wins; duplicates are listed in Dup
	Dup   []string
}

// ReadZip reads every entry of the archive.
func ReadZip(b []byte) (*Package, error) {
	zr, err := zip.NewReader(bytes.NewReader(b), int64(len(b)))
	if err != nil {
		return nil, err
	}
	p := &Package{Parts: map[string][]byte{}}
	for _, f := range zr.File {
		rc, err := f.Open()
		if err != nil {
			return nil, fmt.Errorf("entry %q: %w", f.Name, err)
		}
		data, err := io.ReadAll(rc)
		rc.Close()
		if err != nil {
			return nil, fmt.Errorf("entry %q: %w", f.Name, err)
		}
		if _, dup := p.Parts[f.Name]; dup {
			p.Dup = append(p.Dup, f.Name)
		}
		p.Names = append(p.Names, f.Name)
		p.Parts[f.Name] = data
	}
	return p, nil
}

// SortedNames returns the part names in lexical order.
func (p *Package) SortedNames() []string {
	ns := make([]string, 0, len(p.Parts))
	for n := range p.Parts {
		ns = append(ns, n)
	}
	sort.Strings(ns)
	return ns
}

// Attr is an attribute with its namespace resolved.
type Attr struct{ Space, Local, Val string }

// Node is an element (Local != "") or character data (Local == "").
type Node struct {
	Space, Local string
	Attrs        []Attr
	Kids         []*Node
	Text         string
}

// ParseXML parses a complete document strictly; trailing garbage, unclosed
// elements and characters outside XML 1.0's Char production are errors.
func ParseXML(b []byte) (*Node, error) {
	if !utf8.Valid(b) {
		return nil, fmt.Errorf("not valid UTF-8")
	}
	dec := xml.NewDecoder(bytes.NewReader(b))
	dec.Strict = true
	var stack []*Node
	var root *Node
	for {
		tok, err := dec.Token()
		if err == io.EOF {
			break
		}
		if err != nil {
			return nil, err
		}
		switch t := tok.(type) {
		case xml.StartElement:
			n := &Node{Space: t.Name.Space, Local: t.Name.Local}
			for _, a := range t.Attr {
				if a.Name.Space == "xmlns" || (a.Name.Space == "" && a.Name.Local == "xmlns") {
					continue
				}
				n.Attrs = append(n.Attrs, Attr{a.Name.Space, a.Name.Local, a.Value})
			}
			if len(stack) == 0 {
				if root != nil {
					return nil, fmt.Errorf("more than one root element")
				}
				root = n
			} else {
				top := stack[len(stack)-1]
				top.Kids = append(top.Kids, n)
			}
			stack = append(stack, n)
		case xml.EndElement:
			if len(stack) == 0 {
				return nil, fmt.Errorf("unbalanced end element")
			}
			stack = stack[:len(stack)-1]
		case xml.CharData:
			s := string(t)
			for _, r := range s {
				if !validChar(r) {
					return nil, fmt.Errorf("character U+%04X is not allowed in XML 1.0", r)
				}
			}
			if len(stack) > 0 {
				top := stack[len(stack)-1]
				if k := len(top.Kids); k > 0 && top.Kids[k-1].Local == "" {
					top.Kids[k-1].Text += s
				} else {
					top.Kids = append(top.Kids, &Node{Text: s})
				}
			} else if strings.TrimSpace(s) != "" {
				return nil, fmt.Errorf("text outside the root element")
			}
		}
	}
	if len(stack) != 0 {
		return nil, fmt.Errorf("unexpected EOF: %d unclosed elements", len(stack))
	}
	if root == nil {
		return nil, fmt.Errorf("no root element")
	}
	return root, nil
}

func validChar(r rune) bool {
	return r == 0x9 || r == 0xA || r == 0xD ||
		(r >= 0x20 && r <= 0xD7FF) || (r >= 0xE000 && r <= 0xFFFD) || (r >= 0x10000 && r <= 0x10FFFF)
}

// Is reports whether n is the element {space}local.
func (n *Node) Is(space, local string) bool {
	return n != nil && n.Local == local && n.Space == space
}

// Attr returns the value of attribute {space}local ("" if absent).
func (n *Node) Attr(space, local string) string {
	v, _ := n.AttrOK(space, local)
	return v
}

func (n *Node) AttrOK(space, local string) (string, bool) {
	if n == nil {
		return "", false
	}
	for _, a := range n.Attrs {
		if a.Local == local && a.Space == space {
			return a.Val, true
		}
	}
	return "", false
}

// Child returns the first child element {space}local.
func (n *Node) Child(space, local string) *Node {
	if n == nil {
		return nil
	}
	for _, k := range n.Kids {
		if k.Local == local && k.Space == space {
			return k
		}
	}
	return nil
}

// Children returns all child elements {space}local.
func (n *Node) Children(space, local string) []*Node {
	var out []*Node
	if n == nil {
		return nil
	}
	for _, k := range n.Kids {
		if k.Local == local && k.Space == space {
			out = append(out, k)
		}
	}
	return out
}

// Elems returns all child elements.
func (n *Node) Elems() []*Node {
	var out []*Node
	if n == nil {
		return nil
	}
	for _, k := range n.Kids {
		if k.Local != "" {
			out = append(out, k)
		}
	}
	return out
}

// Walk visits n and all descendants, parents first.
func (n *Node) Walk(f func(*Node) bool) {
	if n == nil {
		return
	}
	if !f(n) {
		return
	}
	for _, k := range n.Kids {
		if k.Local != "" {
			k.Walk(f)
		}
	}
}

// Find returns all descendant elements {space}local (document order).
func (n *Node) Find(space, local string) []*Node {
	var out []*Node
	n.Walk(func(x *Node) bool {
		if x.Local == local && x.Space == space {
			out = append(out, x)
		}
		return true
	})
	return out
}

// InnerText concatenates all character data below n.
func (n *Node) InnerText() string {
	var b strings.Builder
	var rec func(*Node)
	rec = func(x *Node) {
		if x.Local == "" {
			b.WriteString(x.Text)
			return
		}
		for _, k := range x.Kids {
			rec(k)
		}
	}
	if n != nil {
		rec(n)
	}
	return b.String()
}

// Val is shorthand for the w:val attribute.
func (n *Node) Val() string { return n.Attr(NsW, "val") }

// nsShort gives stable short prefixes for canonical output.
var nsShort = map[string]string{
	NsW: "w", NsR: "r", NsRel: "rel", NsCT: "ct", NsA: "a", NsWP: "wp", NsPic: "pic",
	"http://www.w3.org/XML/1998/namespace":                              "xml",
	"http://schemas.openxmlformats.org/officeDocument/2006/math":        "m",
	"http://schemas.openxmlformats.org/markup-compatibility/2006":       "mc",
	"http://schemas.microsoft.com/office/word/2010/wordml":              "w14",
	"urn:schemas-microsoft-com:vml":                                     "v",
	"urn:schemas-microsoft-com:office:office":                           "o",
	"http://purl.org/dc/elements/1.1/":                                  "dc",
	"http://purl.org/dc/terms/":                                         "dcterms",
	"http://schemas.openxmlformats.org/package/2006/metadata/core-properties": "cp",
	"http://www.w3.org/2001/XMLSchema-instance":                         "xsi",
}

// QName renders a namespace/local pair with a stable prefix.
func QName(space, local string) string {
	if space == "" {
		return local
	}
	if p, ok := nsShort[space]; ok {
		return p + ":" + local
	}
	return "{" + space + "}" + local
}

func (n *Node) Name() string { return QName(n.Space, n.Local) }

// significantText reports whether character data under an element of this
// name is content (kept verbatim) rather than layout whitespace.
func significantText(parent *Node) bool {
	switch parent.Local {
	case "t", "instrText", "delText", "lvlText":
		return true
	}
	// non-WordprocessingML vocabularies (core properties etc.): keep text of leaves
	for _, k := range parent.Kids {
		if k.Local != "" {
			return false
		}
	}
	return true
}

// Canon writes the canonical form of the tree: prefixes resolved, attributes
// sorted, whitespace-only text between elements dropped.
func Canon(n *Node) string {
	var b strings.Builder
	canon(&b, n)
	return b.String()
}

func canon(b *strings.Builder, n *Node) {
	if n == nil {
		return
	}
	b.WriteByte('<')
	b.WriteString(n.Name())
	as := make([]string, 0, len(n.Attrs))
	for _, a := range n.Attrs {
		as = append(as, QName(a.Space, a.Local)+"="+fmt.Sprintf("%q", a.Val))
	}
	sort.Strings(as)
	for _, a := range as {
		b.WriteByte(' ')
		b.WriteString(a)
	}
	b.WriteByte('>')
	sig := significantText(n)
	for _, k := range n.Kids {
		if k.Local == "" {
			if sig || strings.TrimSpace(k.Text) != "" {
				fmt.Fprintf(b, "%q", k.Text)
			}
			continue
		}
		canon(b, k)
	}
	b.WriteString("</>")
}

// Hash is a short digest of a canonical string.
func Hash(s string) string {
	h := sha256.Sum256([]byte(s))
	return hex.EncodeToString(h[:8])
}

// ---- content types ---------------------------------------------------------

type ContentTypes struct {
	Defaults  map[string]string // lower-cased extension -> type
	Overrides map[string]string // part name with leading slash -> type
	DupDef    []string
	DupOvr    []string
}

func (p *Package) ContentTypes() (*ContentTypes, error) {
	b, ok := p.Parts["[Content_Types].xml"]
	if !ok {
		return nil, fmt.Errorf("[Content_Types].xml missing")
	}
	root, err := ParseXML(b)
	if err != nil {
		return nil, fmt.Errorf("[Content_Types].xml: %w", err)
	}
	if !root.Is(NsCT, "Types") {
		return nil, fmt.Errorf("[Content_Types].xml: root is %s", root.Name())
	}
	ct := &ContentTypes{Defaults: map[string]string{}, Overrides: map[string]string{}}
	for _, k := range root.Elems() {
		switch {
		case k.Is(NsCT, "Default"):
			ext := strings.ToLower(k.Attr("", "Extension"))
			// two equivalent Default entries are reported only when they disagree:
			// then a part of that extension has no single content type
			if prev, dup := ct.Defaults[ext]; dup && prev != k.Attr("", "ContentType") {
				ct.DupDef = append(ct.DupDef, ext)
			}
			ct.Defaults[ext] = k.Attr("", "ContentType")
		case k.Is(NsCT, "Override"):
			pn := k.Attr("", "PartName")
			if prev, dup := ct.Overrides[pn]; dup && prev != k.Attr("", "ContentType") {
				ct.DupOvr = append(ct.DupOvr, pn)
			}
			ct.Overrides[pn] = k.Attr("", "ContentType")
		}
	}
	return ct, nil
}

// TypeOf resolves the content type of a part (override, else default by
// extension, case-insensitively).
func (ct *ContentTypes) TypeOf(part string) (string, bool) {
	if t, ok := ct.Overrides["/"+part]; ok {
		return t, true
	}
	for pn, t := range ct.Overrides { // part names are case-insensitive in OPC
		if strings.EqualFold(pn, "/"+part) {
			return t, true
		}
	}
	ext := strings.ToLower(strings.TrimPrefix(path.Ext(part), "."))
	if ext == "" {
		return "", false
	}
	t, ok := ct.Defaults[ext]
	return t, ok
}

// ---- relationships ---------------------------------------------------------

type Rel struct {
	ID, Type, Target, Mode string
	Resolved               string // part name the target resolves to (internal only)
}

// RelsPartFor returns the name of the relationship part of a source part
// ("" = package root).
func RelsPartFor(source string) string {
	if source == "" {
		return "_rels/.rels"
	}
	return path.Join(path.Dir(source), "_rels", path.Base(source)+".rels")
}

// SourceOfRels is the inverse of RelsPartFor.
func SourceOfRels(relsName string) (string, bool) {
	if relsName == "_rels/.rels" {
		return "", true
	}
	dir, base := path.Split(relsName)
	if !strings.HasSuffix(base, ".rels") || !strings.HasSuffix(dir, "_rels/") {
		return "", false
	}
	return path.Join(strings.TrimSuffix(dir, "_rels/"), strings.TrimSuffix(base, ".rels")), true
}

// Rels parses one relationship part.
func (p *Package) Rels(relsName string) ([]Rel, error) {
	b, ok := p.Parts[relsName]
	if !ok {
		return nil, nil
	}
	root, err := ParseXML(b)
	if err != nil {
		return nil, fmt.Errorf("%s: %w", relsName, err)
	}
	if !root.Is(NsRel, "Relationships") {
		return nil, fmt.Errorf("%s: root is %s", relsName, root.Name())
	}
	src, _ := SourceOfRels(relsName)
	base := path.Dir(src)
	if src == "" {
		base = ""
	}
	var out []Rel
	for _, k := range root.Children(NsRel, "Relationship") {
		r := Rel{ID: k.Attr("", "Id"), Type: k.Attr("", "Type"), Target: k.Attr("", "Target"), Mode: k.Attr("", "TargetMode")}
		if !strings.EqualFold(r.Mode, "External") {
			if strings.HasPrefix(r.Target, "/") {
				r.Resolved = strings.TrimPrefix(path.Clean(r.Target), "/")
			} else {
				r.Resolved = path.Clean(path.Join(base, r.Target))
			}
		}
		out = append(out, r)
	}
	return out, nil
}

// RelsParts lists all relationship parts of the package.
func (p *Package) RelsParts() []string {
	var out []string
	for _, n := range p.SortedNames() {
		if strings.HasSuffix(n, ".rels") {
			out = append(out, n)
		}
	}
	return out
}

// MainPart locates the main document part through the package relationships.
func (p *Package) MainPart() (string, error) {
	rels, err := p.Rels("_rels/.rels")
	if err != nil {
		return "", err
	}
	if rels == nil {
		return "", fmt.Errorf("_rels/.rels missing")
	}
	var found []string
	for _, r := range rels {
		if r.Type == RelDoc {
			found = append(found, r.Resolved)
		}
	}
	if len(found) != 1 {
		return "", fmt.Errorf("%d officeDocument relationships", len(found))
	}
	return found[0], nil
}

// IsXMLType reports whether a content type denotes an XML part.
func IsXMLType(t string) bool {
	return strings.HasSuffix(t, "+xml") || t == "application/xml" || t == "text/xml"
}
