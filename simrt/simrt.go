// Package simrt connects the simulator to the seams inside the scratch copy
// of the library (package verifrt): it decides map-iteration orders from the
// run's PRNG and turns lock operations into scheduler yield points.
package simrt

import (
	"github.com/zerx-lab/wordZero/pkg/verifrt"
	"runtime"
	"time"

	"verif/sim"
	"verif/sim/sched"
)

// Order is the map-iteration policy of one run.
type Order struct {
	Policy  string // sorted | reverse | rotate | shuffle | mixed | native
	streams []*sim.Rand
	sch     *sched.Sched
	Calls   int64 // Keys calls that had a choice
	Changed int64 // … whose order was not the sorted one
}

// InstallOrder makes the library ask o for every map iteration order.
// streams: one PRNG stream per task (+1 for code running outside tasks), so
// that one task's iterations do not shift another's.
func InstallOrder(policy string, seed uint64, ntasks int, s *sched.Sched) *Order {
	o := &Order{Policy: policy, sch: s}
	base := sim.NewRand(seed)
	for i := 0; i <= ntasks; i++ {
		o.streams = append(o.streams, base.Fork())
	}
	verifrt.Native = policy == "native"
	verifrt.KeysHook = o.hook
	return o
}

//go:norace
func (o *Order) hook(n int) []int {
	o.Calls++
	idx := o.sch.Cur() + 1
	if idx < 0 || idx >= len(o.streams) {
		idx = 0
	}
	r := o.streams[idx]
	pol := o.Policy
	if pol == "mixed" {
		pol = []string{"sorted", "reverse", "rotate", "shuffle"}[r.Intn(4)]
	}
	var p []int
	switch pol {
	case "reverse":
		p = make([]int, n)
		for i := range p {
			p[i] = n - 1 - i
		}
	case "rotate":
		k := r.Intn(n)
		if k == 0 {
			return nil
		}
		p = make([]int, n)
		for i := range p {
			p[i] = (i + k) % n
		}
	case "shuffle":
		p = r.Perm(n)
		same := true
		for i, v := range p {
			if i != v {
				same = false
			}
		}
		if same {
			return nil
		}
	default:
		return nil
	}
	o.Changed++
	return p
}

// Uninstall removes all hooks.
func Uninstall() {
	verifrt.KeysHook = nil
	verifrt.Native = false
	verifrt.AcquireHook = nil
	verifrt.ReleasedHook = nil
	verifrt.PollHook = nil
	verifrt.IOHook = nil
	verifrt.IOFault = nil
	verifrt.PointHook = nil
}

// ---- simulated clock ----------------------------------------------------------------------

// Clock policies.
const (
	ClockSteady = iota // every read is one second after the previous one
	ClockJumps         // every read is up to two days before or after the previous one (clock steps, skew between hosts)
	ClockStuck         // every read returns the same instant
)

var (
	clkReads  int64
	clkNow    int64
	clkState  uint64
	clkPolicy int
)

// ClockReads is how often the library read the simulated clock since InstallClock.
//
//go:norace
func ClockReads() int64 { return clkReads }

// InstallClock puts the library on a simulated clock for the rest of the process (re-installed per run): the instants
// are a function of seed, policy and the number of reads only. It is not removed by Uninstall: a run has one clock.
//
//go:norace
func InstallClock(seed uint64, policy int) {
	clkReads, clkNow, clkState, clkPolicy = 0, 1_700_000_000, seed|1, policy
	verifrt.NowHook = simNow
}

//go:norace
func simNow() time.Time {
	clkReads++
	switch clkPolicy {
	case ClockSteady:
		clkNow++
	case ClockJumps:
		clkState += 0x9E3779B97F4A7C15
		z := clkState
		z = (z ^ (z >> 30)) * 0xBF58476D1CE4E5B9
		z = (z ^ (z >> 27)) * 0x94D049BB133111EB
		z ^= z >> 31
		clkNow += int64(z%(4*86400)) - 2*86400
	}
	return time.Unix(clkNow, 0).UTC()
}

// InstallPoints makes the preemption points of the instrumented library yield to s about every mean points
// (mean <= 0: never).
func InstallPoints(s *sched.Sched, mean int) {
	if s == nil || mean <= 0 {
		return
	}
	s.PreemptMean = mean
	verifrt.PointHook = s.Preempt
}

// IOStats counts what the file-system seam saw.
type IOStats struct {
	Calls  int64
	Faults int64
}

// InstallIO makes every file-system call of the library a yield point of s
// (s may be nil: no scheduling) and lets fault decide whether the call fails.
// fault is called with the running count of file-system calls (from 0).
func InstallIO(s *sched.Sched, fault func(n int64, kind, path string) error) *IOStats {
	st := &IOStats{}
	verifrt.IOHook = func(kind, path string) { ioYield(s, st) }
	if fault != nil {
		verifrt.IOFault = func(kind, path string) error { return ioFault(st, fault, kind, path) }
	}
	return st
}

//go:norace
func ioYield(s *sched.Sched, st *IOStats) {
	st.Calls++
	if s.Active() && s.Cur() >= 0 {
		s.Yield()
	}
}

//go:norace
func ioFault(st *IOStats, fault func(n int64, kind, path string) error, kind, path string) error {
	if err := fault(st.Calls-1, kind, path); err != nil {
		st.Faults++
		return err
	}
	return nil
}

// LockStats counts what the lock seam saw.
type LockStats struct {
	Acquires, Blocks int64
	Polls            int64 // fruitless attempts of channel operations that handed the baton on
}

// InstallLocks makes every lock operation of the library a yield point of s.
func InstallLocks(s *sched.Sched) *LockStats {
	ls := &LockStats{}
	verifrt.AcquireHook = func(st *verifrt.LockState, write bool) { acquire(s, ls, st, write) }
	verifrt.ReleasedHook = func(st *verifrt.LockState, write bool) { released(s, st) }
	verifrt.PollHook = func() bool { return poll(s, ls) }
	return ls
}

// poll: a task waits for a channel of the library. It hands the baton on and tries again when it is scheduled next; after
// many fruitless rounds (nobody who holds the baton ever serves the channel) it gives up polling and blocks for real.
//
//go:norace
func poll(s *sched.Sched, ls *LockStats) bool {
	if !s.Active() || s.Cur() < 0 {
		return false
	}
	ls.Polls++
	if ls.Polls%4096 == 0 {
		return false
	}
	runtime.Gosched() // goroutines the library started itself get a chance too
	s.Yield()
	return true
}

//go:norace
func acquire(s *sched.Sched, ls *LockStats, st *verifrt.LockState, write bool) {
	if !s.Active() || s.Cur() < 0 {
		return
	}
	ls.Acquires++
	s.Yield()
	if write && !st.FreeIgnoringWaiters(true) {
		// a writer that has to wait is pending from now on: readers that ask later queue up behind it
		st.AddWaiting(1)
		for !st.FreeIgnoringWaiters(true) {
			ls.Blocks++
			s.Block(st.Ptr())
		}
		st.AddWaiting(-1)
		return
	}
	for !st.Free(write) {
		ls.Blocks++
		s.Block(st.Ptr())
	}
}

//go:norace
func released(s *sched.Sched, st *verifrt.LockState) {
	if !s.Active() || s.Cur() < 0 {
		return
	}
	s.Wake(st.Ptr())
	s.Yield()
}

// KeysCalls is the library-side counter of order decisions.
//
//go:norace
func KeysCalls() int64 { return verifrt.KeysCalls }
