package props

import (
	"fmt"
	"strings"

	"verif/sim"
	"verif/world"
)

// Text templates generated from the documented grammar, as trees (so that a
// reference interpreter can evaluate them) and as template source.

type TNode struct {
	Kind string   `json:"k"` // lit var if each this index first last field iffield block image
	Text string   `json:"t,omitempty"`
	Name string   `json:"n,omitempty"`
	Kids []*TNode `json:"c,omitempty"`
	Else []*TNode `json:"e,omitempty"`
	HasE bool     `json:"he,omitempty"`
}

func tsrc(ns []*TNode) string {
	var b strings.Builder
	for _, n := range ns {
		switch n.Kind {
		case "lit":
			b.WriteString(n.Text)
		case "var", "field":
			b.WriteString("{{" + n.Name + "}}")
		case "this":
			b.WriteString("{{this}}")
		case "index":
			b.WriteString("{{@index}}")
		case "first":
			b.WriteString("{{@first}}")
		case "last":
			b.WriteString("{{@last}}")
		case "if", "iffield":
			b.WriteString("{{#if " + n.Name + "}}" + tsrc(n.Kids))
			if n.HasE {
				b.WriteString("{{else}}" + tsrc(n.Else))
			}
			b.WriteString("{{/if}}")
		case "each":
			b.WriteString("{{#each " + n.Name + "}}" + tsrc(n.Kids) + "{{/each}}")
		case "block":
			b.WriteString("{{#block \"" + n.Name + "\"}}" + tsrc(n.Kids) + "{{/block}}")
		case "image":
			b.WriteString("{{#image " + n.Name + "}}")
		}
	}
	return b.String()
}

// TData is template data in a form that survives JSON (replay files).
type TData = world.TData

func ParseTData(s string) *TData { return world.ParseTData(s) }

// TGen generates templates and data.
type TGen struct {
	R        *sim.Rand
	tag      int
	Hostile  bool // literal text may contain brace characters and directive look-alikes
	HostileV bool // data values may contain placeholders and directives (they must be inserted verbatim)
	// LoopVarsInNested allows {{this}}, {{@index}}, {{@first}}, {{@last}} in the body of a nested loop
	LoopVarsInNested bool
	MissingNested    bool // items may lack the list a nested loop iterates
	MixedNested      bool // nested lists may mix scalar and map items
	VarRefs          bool // top-level variable values may mention other variables' placeholders
	inItem           bool
	Else             bool // generate {{else}} branches
	Nested           bool // nested each
	Newlines         bool
	varN             int
}

var (
	tVars  = []string{"name", "title", "v1", "v2", "city", "n"}
	tConds = []string{"c1", "c2", "show", "flag"}
	tLists = []string{"items", "rows", "people"}
	tField = []string{"f1", "f2", "label", "qty"}
	tSub   = []string{"subs", "tags"}
	tFlag  = []string{"ok", "on"} // item fields that are booleans (or absent): conditions inside loops use these
)

func (g *TGen) lit() *TNode {
	g.tag++
	words := []string{"alpha", "beta ", " gamma", "delta.", "x", "Total:", "- "}
	if g.Hostile {
		words = append(words, "{", "}", "{ {", "} }", "{{ not a var }}", "{{}}", "{x}", "}}{{", "<&>")
	}
	if g.Newlines {
		words = append(words, "\n", "line\nbreak", "\n\n")
	}
	n := 1 + g.R.Intn(3)
	s := fmt.Sprintf("⟦%d⟧", g.tag)
	for i := 0; i < n; i++ {
		s += words[g.R.Intn(len(words))]
	}
	return &TNode{Kind: "lit", Text: s}
}

// Seq generates a top-level node sequence.
func (g *TGen) Seq(n int) []*TNode {
	var out []*TNode
	for i := 0; i < n; i++ {
		switch g.R.Intn(8) {
		case 0, 1:
			out = append(out, g.lit())
		case 2, 3:
			out = append(out, &TNode{Kind: "var", Name: tVars[g.R.Intn(len(tVars))]})
		case 4:
			nd := &TNode{Kind: "if", Name: tConds[g.R.Intn(len(tConds))], Kids: []*TNode{g.lit(), {Kind: "var", Name: tVars[g.R.Intn(len(tVars))]}}}
			if g.Else && g.R.Bool() {
				nd.HasE = true
				nd.Else = []*TNode{g.lit()}
			}
			out = append(out, nd)
		case 5, 6:
			out = append(out, g.each(tLists[g.R.Intn(len(tLists))], 0))
		default:
			out = append(out, g.lit())
		}
		// separate directives by literal text now and then (adjacent directives are legal too)
		if g.R.Chance(0.5) {
			out = append(out, g.lit())
		}
	}
	return out
}

func (g *TGen) each(list string, depth int) *TNode {
	nd := &TNode{Kind: "each", Name: list}
	k := 1 + g.R.Intn(4)
	for i := 0; i < k; i++ {
		x := g.R.Intn(9)
		if depth >= 1 && !g.LoopVarsInNested && x >= 1 && x <= 3 {
			x = 4
		}
		switch x {
		case 0:
			nd.Kids = append(nd.Kids, g.lit())
		case 1:
			nd.Kids = append(nd.Kids, &TNode{Kind: "this"})
		case 2:
			nd.Kids = append(nd.Kids, &TNode{Kind: "index"})
		case 3:
			nd.Kids = append(nd.Kids, &TNode{Kind: g.R.Pick("first", "last")})
		case 4, 5:
			nd.Kids = append(nd.Kids, &TNode{Kind: "field", Name: tField[g.R.Intn(len(tField))]})
		case 6:
			c := &TNode{Kind: "iffield", Name: tFlag[g.R.Intn(len(tFlag))], Kids: []*TNode{g.lit()}}
			if g.Else && g.R.Bool() {
				c.HasE = true
				c.Else = []*TNode{g.lit()}
			}
			nd.Kids = append(nd.Kids, c)
		case 7:
			if g.Nested && depth == 0 {
				nd.Kids = append(nd.Kids, g.each(tSub[g.R.Intn(len(tSub))], depth+1))
			} else {
				nd.Kids = append(nd.Kids, g.lit())
			}
		default:
			nd.Kids = append(nd.Kids, g.lit())
		}
	}
	return nd
}

func (g *TGen) scalar() any {
	g.varN++
	switch g.R.Intn(8) {
	case 0:
		return float64(g.R.Range(-5, 500))
	case 1:
		return float64(g.R.Range(0, 100)) + 0.5
	case 2:
		return g.R.Bool()
	case 3:
		return ""
	case 4:
		if g.VarRefs && !g.inItem {
			// a top-level value that mentions another variable's placeholder: must come out verbatim
			return "see {{" + tVars[g.R.Intn(len(tVars))] + "}} there"
		}
		if g.HostileV {
			return g.R.Pick("{{name}}", "{{#if c1}}X{{/if}}", "{{this}}", "{{/each}}", "{{f1}}", "a{b}c", "{{else}}", "<&\">")
		}
		return fmt.Sprintf("val%d", g.varN)
	default:
		return fmt.Sprintf("val%d", g.varN)
	}
}

// Data generates data for the names the generator uses; some entries are left out on purpose.
func (g *TGen) Data() *TData {
	d := &TData{Vars: map[string]any{}, Conds: map[string]bool{}, Lists: map[string][]any{}}
	for _, v := range tVars {
		if g.R.Chance(0.8) {
			d.Vars[v] = g.scalar()
		}
	}
	for _, c := range tConds {
		if g.R.Chance(0.75) {
			d.Conds[c] = g.R.Bool()
		}
	}
	g.inItem = true
	defer func() { g.inItem = false }()
	for _, l := range tLists {
		if g.R.Chance(0.85) {
			n := g.R.Intn(4)
			items := []any{}
			maps := g.R.Chance(0.7) || g.Nested // a nested loop needs items that can carry a list
			for i := 0; i < n; i++ {
				if !maps {
					items = append(items, g.scalar())
					continue
				}
				it := map[string]any{}
				for _, f := range tField {
					if g.R.Chance(0.8) {
						it[f] = g.scalar()
					}
				}
				for _, f := range tFlag {
					if g.R.Chance(0.7) {
						it[f] = g.R.Bool()
					}
				}
				if g.Nested {
					for _, s := range tSub {
						if g.R.Chance(0.6) || !g.MissingNested { // (a nested loop over a list the item lacks: listed finding)
							sub := []any{}
							for j := g.R.Intn(3); j > 0; j-- {
								if g.R.Bool() && g.MixedNested { // (mixed scalar/map items in a nested list: only in wild runs)
									sub = append(sub, g.scalar())
								} else {
									sub = append(sub, map[string]any{"f1": g.scalar(), "label": g.scalar(), "ok": g.R.Bool()})
								}
							}
							it[s] = sub
						}
					}
				}
				items = append(items, it)
			}
			d.Lists[l] = items
		}
	}
	return d
}
