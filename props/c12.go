package props

import (
	"fmt"
	"math"
	"strconv"

	"verif/inspect"
	"verif/sim"
	"verif/world"
)

// C12 — page-setting calls change only what they name; settings read back as set.
type c12 struct{}

func init() { Register(c12{}) }

func (c12) ID() string     { return "C12" }
func (c12) Flavor() string { return "instr" }
func (c12) Runs(tier string) int {
	if tier == "thorough" {
		return 300000
	}
	return 10000
}

func (c12) Describe() Description {
	return Description{
		Rule: "one case = a seeded history over SetPageSettings / SetPageSize / SetCustomPageSize / SetPageOrientation / SetPageMargins / SetHeaderFooterDistance / SetGutterWidth / SetDocGrid / " +
			"ClearDocGrid with all predefined sizes, custom sizes across [12.7, 558.8] mm and at +-0.01 mm around both bounds, both orientations, sizes just inside and outside the 1 mm recognition " +
			"tolerance of each predefined size (also rotated), negative, zero and unknown arguments, nil settings, interleaved with body edits, save events and document restarts; GetPageSettings " +
			"after every call. Reference model = a record of the attributes with defaults; after every call the read-back equals the model up to one twip per length and the documented size " +
			"recognition, a rejected call changed nothing, margins calls leave w:pgSz untouched, an orientation change swaps the physical dimensions exactly once; at every save w:pgSz / w:pgMar / " +
			"w:docGrid (independent parser) equal the model in twips. Non-trivial = >= 3 page-setting calls of >= 2 kinds and >= 1 save or restart; distinct = distinct fingerprints.",
		Assumptions: []string{"the search lane does not clear the document grid before another setter runs (listed finding, with a witness)"},
		RealVsStub:  map[string]string{"real": "page API, section-settings writer and reader", "stub": "map iteration order"},
	}
}

func (c12) Nontrivial(c *sim.Case, st *sim.Stats) bool {
	kinds, n := 0, int64(0)
	for _, k := range []string{"pg.size", "pg.custom", "pg.orient", "pg.margins", "pg.hfdist", "pg.gutter", "pg.grid", "pg.cleargrid", "pg.set"} {
		if st.Ops[k] > 0 {
			kinds++
			n += st.Ops[k]
		}
	}
	return n >= 3 && kinds >= 2 && st.Probes["save_events"]+st.Probes["restart_doc"] >= 1
}

var c12sizes = map[string][2]float64{"A4": {210, 297}, "Letter": {215.9, 279.4}, "Legal": {215.9, 355.6}, "A3": {297, 420}, "A5": {148, 210}}
var c12sizeNames = []string{"A4", "Letter", "Legal", "A3", "A5"}

func (c12) Gen(r *sim.Rand, c *sim.Case, tier string) {
	var ops []sim.Op
	landscape, custom, cleared := false, false, false
	n := r.Range(3, 25)
	customDims := func() (float64, float64) {
		switch r.Intn(8) {
		case 0: // around the bounds
			return []float64{12.69, 12.7, 12.71, 558.79, 558.8, 558.81}[r.Intn(6)], float64(r.Range(50, 400))
		case 1:
			return float64(r.Range(50, 400)), []float64{12.69, 12.7, 12.71, 558.79, 558.8, 558.81, 0, -5}[r.Intn(8)]
		case 2, 3: // near a predefined size (possibly rotated)
			d := c12sizes[c12sizeNames[r.Intn(5)]]
			dx := []float64{-1.2, -0.9, -0.4, 0.4, 0.9, 1.2}[r.Intn(6)]
			dy := []float64{-1.2, -0.9, 0, 0.9, 1.2}[r.Intn(5)]
			if r.Bool() && !Wild {
				return d[0] + dx, d[1] + dy
			}
			return d[0] + dx, d[1] + dy
		default:
			return float64(r.Range(130, 5500)) / 10, float64(r.Range(130, 5500)) / 10
		}
	}
	for len(ops) < n {
		switch r.Intn(14) {
		case 0, 1:
			name := c12sizeNames[r.Intn(5)]
			if r.Chance(0.08) {
				name = r.Pick("B5", "", "a4", "Tabloid")
			}
			ops = append(ops, sim.Op{K: "pg.size", S: []sim.Str{sim.Str(name)}})
			if _, ok := c12sizes[name]; ok {
				custom = false
			}
		case 2, 3:
			w, h := customDims()
			ops = append(ops, sim.Op{K: "pg.custom", F: []float64{w, h}})
			if w >= 12.7 && w <= 558.8 && h >= 12.7 && h <= 558.8 {
				custom = true
			}
		case 4, 5:
			o := r.Pick("portrait", "landscape", "landscape", "portrait", "diagonal", "")
			ops = append(ops, sim.Op{K: "pg.orient", S: []sim.Str{sim.Str(o)}})
			if o == "landscape" || o == "portrait" {
				landscape = o == "landscape"
			}
		case 6, 7:
			m := func() float64 {
				if r.Chance(0.07) {
					return -1
				}
				return float64(r.Range(0, 600)) / 10
			}
			mo := sim.Op{K: "pg.margins", F: []float64{m(), m(), m(), m()}}
			if r.Chance(0.12) { // back to the defaults, by naming them
				df := c12default()
				mo.F = []float64{df.mt, df.mr, df.mb, df.ml}
			}
			ops = append(ops, mo)
		case 8:
			ops = append(ops, sim.Op{K: "pg.hfdist", F: []float64{float64(r.Range(-2, 300)) / 10, float64(r.Range(0, 300)) / 10}})
		case 9:
			ops = append(ops, sim.Op{K: "pg.gutter", F: []float64{float64(r.Range(-3, 200)) / 10}})
		case 10:
			gop := sim.Op{K: "pg.grid", S: []sim.Str{sim.Str(r.Pick("default", "lines", "linesAndChars", "snapToChars", ""))}, I: []int{r.Range(0, 600), r.Range(0, 100)}}
			if r.Chance(0.2) { // a call that names exactly the default grid (after whatever grid was set before)
				df := c12default()
				gop = sim.Op{K: "pg.grid", S: []sim.Str{sim.Str(df.gridType)}, I: []int{df.pitch, df.charSpace}}
			}
			ops = append(ops, gop)
			cleared = false
		case 11:
			if !Wild {
				continue // listed finding: a cleared grid comes back with the next setter
			}
			ops = append(ops, sim.Op{K: "pg.cleargrid"})
			cleared = true
		case 12:
			if r.Chance(0.15) {
				ops = append(ops, sim.Op{K: "pg.set", I: []int{0, 0, 1}})
				continue
			}
			if r.Chance(0.15) { // everything back to the defaults through one call that names them all
				df := c12default()
				ops = append(ops, sim.Op{K: "pg.set", S: []sim.Str{sim.Str(df.size), "portrait", sim.Str(df.gridType)},
					F: []float64{0, 0, df.mt, df.mr, df.mb, df.ml, df.hd, df.fd, df.gutter}, I: []int{df.pitch, df.charSpace, 0}})
				custom, landscape, cleared = false, false, false
				continue
			}
			sz := c12sizeNames[r.Intn(5)]
			or := r.Pick("portrait", "landscape")
			var w, h float64
			if r.Chance(0.3) {
				sz = "Custom"
				w, h = customDims()
			}
			pset := sim.Op{K: "pg.set", S: []sim.Str{sim.Str(sz), sim.Str(or), sim.Str(r.Pick("lines", "default", "snapToChars"))},
				F: []float64{w, h, float64(r.Range(0, 50)), float64(r.Range(0, 50)), float64(r.Range(0, 50)), float64(r.Range(0, 50)), float64(r.Range(0, 30)), float64(r.Range(0, 30)), float64(r.Range(0, 20))},
				I: []int{r.Range(0, 600), r.Range(0, 100), 0}}
			negative := r.Chance(0.08)
			if negative { // one negative margin, distance or gutter in an otherwise complete request
				pset.F[r.Range(2, 8)] = -float64(r.Range(1, 30))
			}
			ops = append(ops, pset)
			if negative {
				continue // (whether the request took effect is not known to the generator: its own book-keeping stays as it was)
			}
			if sz == "Custom" {
				if w >= 12.7 && w <= 558.8 && h >= 12.7 && h <= 558.8 {
					custom, landscape = true, or == "landscape"
				}
			} else {
				custom, landscape = false, or == "landscape"
			}
			cleared = false
		default:
			ops = append(ops, sim.Op{K: r.Pick("para", "pbreak", "hdr"), S: []sim.Str{"default", "text"}})
		}
		_, _, _ = cleared, landscape, custom
	}
	ops = sprinkleSaves(r, ops, 0, r.Range(2, 8), 0.5, 0)
	c.Tasks = [][]sim.Op{ops}
	c.Order = orderPolicy(r)
	c.OrderSeed = r.Uint64()
}

// ---- model ------------------------------------------------------------------------

type c12state struct {
	size                 string // predefined name or "Custom"
	cw, ch               float64
	landscape            bool
	mt, mr, mb, ml       float64
	hd, fd, gutter       float64
	gridType             string
	pitch, charSpace     int
	sectExists           bool // some call has created the section settings
	sizeWritten          bool // w:pgSz was written at least once
	gridWritten, cleared bool
}

func c12default() c12state {
	return c12state{size: "A4", mt: 25.4, mr: 25.4, mb: 25.4, ml: 25.4, hd: 12.7, fd: 12.7, gridType: "lines", pitch: 312}
}

// nominal returns the page dimensions before orientation is applied.
func (s c12state) nominal() (float64, float64) {
	if s.size == "Custom" {
		return s.cw, s.ch
	}
	d := c12sizes[s.size]
	return d[0], d[1]
}

// physical returns the dimensions of the page as written.
func (s c12state) physical() (float64, float64) {
	w, h := s.nominal()
	if s.landscape {
		return h, w
	}
	return w, h
}

const twip = 1.0 / 56.692913385827

func near(a, b, tol float64) bool { return math.Abs(a-b) <= tol }

// recognised returns the predefined size a dimension pair is reported as (1 mm tolerance, either rotation).
// recognised lists the predefined sizes that lie within the documented 1 mm of w x h. Lengths are stored in
// twentieths of a point, so a requested length that differs from a predefined one by exactly 1 mm may be stored as
// one that differs by a hair less: at the boundary the tolerance is taken up to one storage unit (Appendix B11).
func recognised(w, h float64) []string {
	var out []string
	const tol = 1 + 1.01*twip
	for _, n := range c12sizeNames {
		d := c12sizes[n]
		if (math.Abs(w-d[0]) < tol && math.Abs(h-d[1]) < tol) || (math.Abs(w-d[1]) < tol && math.Abs(h-d[0]) < tol) {
			out = append(out, n)
		}
	}
	return out
}

func validOrient(o string) bool { return o == "portrait" || o == "landscape" }

func customOK(w, h float64) bool {
	return w > 0 && h > 0 && w >= 12.7 && w <= 558.8 && h >= 12.7 && h <= 558.8
}

// apply returns the next model state and whether the call must be rejected.
func (s c12state) apply(op sim.Op) (c12state, bool) {
	n := s
	switch op.K {
	case "pg.size":
		if _, ok := c12sizes[op.Str(0)]; !ok && op.Str(0) != "Custom" {
			return s, true
		}
		if op.Str(0) == "Custom" {
			if !customOK(s.cw, s.ch) {
				return s, true
			}
		}
		n.size = op.Str(0)
	case "pg.custom":
		if !customOK(op.Flt(0), op.Flt(1)) {
			return s, true
		}
		n.size, n.cw, n.ch = "Custom", op.Flt(0), op.Flt(1)
	case "pg.orient":
		if !validOrient(op.Str(0)) {
			return s, true
		}
		n.landscape = op.Str(0) == "landscape"
	case "pg.margins":
		for i := 0; i < 4; i++ {
			if op.Flt(i) < 0 {
				return s, true
			}
		}
		n.mt, n.mr, n.mb, n.ml = op.Flt(0), op.Flt(1), op.Flt(2), op.Flt(3)
	case "pg.hfdist":
		if op.Flt(0) < 0 || op.Flt(1) < 0 {
			return s, true
		}
		n.hd, n.fd = op.Flt(0), op.Flt(1)
	case "pg.gutter":
		if op.Flt(0) < 0 {
			return s, true
		}
		n.gutter = op.Flt(0)
	case "pg.grid":
		if op.Str(0) == "" {
			return s, true
		}
		n.gridType, n.pitch, n.charSpace = op.Str(0), op.Int(0), op.Int(1)
		n.cleared = false
	case "pg.cleargrid":
		d := c12default()
		n.gridType, n.pitch, n.charSpace = d.gridType, d.pitch, d.charSpace
		n.cleared = true
		n.sectExists = true
		return n, false
	case "pg.set":
		if op.Int(2) == 1 {
			return s, true
		}
		sz := op.Str(0)
		if _, ok := c12sizes[sz]; !ok && sz != "Custom" {
			return s, true
		}
		if sz == "Custom" && !customOK(op.Flt(0), op.Flt(1)) {
			return s, true
		}
		if !validOrient(op.Str(1)) {
			return s, true
		}
		n.size, n.landscape = sz, op.Str(1) == "landscape"
		if sz == "Custom" {
			n.cw, n.ch = op.Flt(0), op.Flt(1)
		}
		n.mt, n.mr, n.mb, n.ml = op.Flt(2), op.Flt(3), op.Flt(4), op.Flt(5)
		n.hd, n.fd, n.gutter = op.Flt(6), op.Flt(7), op.Flt(8)
		if op.Str(2) != "" {
			n.gridType, n.pitch, n.charSpace = op.Str(2), op.Int(0), op.Int(1)
			n.cleared = false
		}
	default:
		return s, false
	}
	n.sectExists, n.sizeWritten = true, true
	return n, false
}

var c12ops = map[string]bool{"pg.size": true, "pg.custom": true, "pg.orient": true, "pg.margins": true, "pg.hfdist": true, "pg.gutter": true, "pg.grid": true, "pg.cleargrid": true, "pg.set": true}

func (c12) Exec(c *sim.Case, env *Env) []sim.Violation {
	st := c12default()
	obs := &histObserver{panics: true}
	// readBack compares GetPageSettings with the model.
	readBack := func(w *world.World, ds *world.Doc, when string) {
		if ds.Dead || ds.D == nil {
			return
		}
		g := ds.D.GetPageSettings()
		if g == nil {
			w.Fail("read-back", "nil", "GetPageSettings returned nil")
			return
		}
		bad := func(attr, detail string) {
			w.Fail("read-back", attr, fmt.Sprintf("%s: %s", when, detail))
		}
		// size / orientation
		pw, ph := st.physical()
		gotOr := string(g.Orientation) == "landscape"
		if gotOr != st.landscape {
			bad("orientation", fmt.Sprintf("orientation reads %q, the model says landscape=%v", g.Orientation, st.landscape))
			return
		}
		rec := recognised(pw, ph)
		switch {
		case st.size != "Custom":
			if string(g.Size) != st.size {
				bad("size", fmt.Sprintf("size reads %q, most recent call named %q", g.Size, st.size))
				return
			}
		case string(g.Size) == "Custom":
			// custom size read back: as given (the property), up to one twip
			okAsGiven := near(g.CustomWidth, st.cw, 1.01*twip) && near(g.CustomHeight, st.ch, 1.01*twip)
			if !okAsGiven {
				cls := "custom-size"
				if st.landscape && near(g.CustomWidth, st.ch, 1.01*twip) && near(g.CustomHeight, st.cw, 1.01*twip) {
					cls = "custom-size-in-landscape-reads-swapped"
				}
				bad(cls, fmt.Sprintf("custom size reads %.3f x %.3f mm, most recent call named %.3f x %.3f mm (landscape=%v)", g.CustomWidth, g.CustomHeight, st.cw, st.ch, st.landscape))
				return
			}
		default:
			// reported as a predefined size: allowed only within the documented 1 mm tolerance
			okRec := false
			for _, n := range rec {
				if n == string(g.Size) {
					okRec = true
				}
			}
			if !okRec {
				bad("size-recognition", fmt.Sprintf("custom %.2f x %.2f mm reads as %q, which is not within 1 mm", st.cw, st.ch, g.Size))
				return
			}
		}
		cmp := func(attr string, got, want float64) bool {
			if !near(got, want, 1.01*twip) {
				bad(attr, fmt.Sprintf("%s reads %.4f mm, most recent call named %.4f mm", attr, got, want))
				return false
			}
			return true
		}
		if !(cmp("margin-top", g.MarginTop, st.mt) && cmp("margin-right", g.MarginRight, st.mr) && cmp("margin-bottom", g.MarginBottom, st.mb) && cmp("margin-left", g.MarginLeft, st.ml) &&
			cmp("header-distance", g.HeaderDistance, st.hd) && cmp("footer-distance", g.FooterDistance, st.fd) && cmp("gutter", g.GutterWidth, st.gutter)) {
			return
		}
		if string(g.DocGridType) != st.gridType || g.DocGridLinePitch != st.pitch || g.DocGridCharSpace != st.charSpace {
			bad("doc-grid", fmt.Sprintf("grid reads (%s, %d, %d), the model says (%s, %d, %d)", g.DocGridType, g.DocGridLinePitch, g.DocGridCharSpace, st.gridType, st.pitch, st.charSpace))
		}
	}
	obs.after = func(w *world.World, op sim.Op, ds *world.Doc, o *world.Obs) {
		if ds.Dead || o.Skipped {
			return
		}
		if c12ops[op.K] {
			next, reject := st.apply(op)
			unspecified := false
			if op.K == "pg.set" && op.Int(2) != 1 && !reject {
				for i := 2; i <= 8; i++ {
					unspecified = unspecified || op.Flt(i) < 0
				}
			}
			switch {
			case unspecified:
				// a negative margin, distance or gutter handed to SetPageSettings directly: the convenience setters refuse such values,
				// SetPageSettings itself does not say. Either answer is taken - but a refusal must leave everything as it was
				// (the read-back below compares with the unchanged model), and an acceptance must apply the whole request
				if o.Err == nil {
					st = next
					w.Stats.Probe("page_calls_accepted")
				} else {
					w.Stats.Probe("page_calls_rejected")
				}
			case reject && o.Err == nil:
				w.Fail("invalid-accepted", op.K, fmt.Sprintf("%s %v %v %v is not a valid request but was accepted", op.K, op.S, op.F, op.I))
				return
			case !reject && o.Err != nil:
				w.Fail("valid-rejected", op.K, fmt.Sprintf("%s %v %v %v was rejected: %v", op.K, op.S, op.F, op.I, o.Err))
				return
			case !reject:
				// when a custom size within tolerance of a predefined one was in force, a read-modify-write
				// setter may legitimately have snapped it to the predefined size: follow the implementation there
				if st.size == "Custom" && op.K != "pg.custom" && op.K != "pg.set" && op.K != "pg.cleargrid" {
					pw, ph := st.physical()
					if rec := recognised(pw, ph); len(rec) > 0 && next.size == "Custom" {
						if g := ds.D.GetPageSettings(); g != nil && string(g.Size) == rec[0] {
							next.size = rec[0]
						}
					}
				}
				st = next
				w.Stats.Probe("page_calls_accepted")
			default:
				w.Stats.Probe("page_calls_rejected")
			}
		}
		if op.K == "restart" && o.Res != "ok" {
			return
		}
		if c.C("saved_only") == 0 { // a witness may ask for the saved-settings clause alone
			readBack(w, ds, "after "+op.K)
		}
		w.Log.Event("st %+v", st)
	}
	obs.onSave = func(w *world.World, ds *world.Doc, b []byte) []sim.Violation {
		pkg, err := inspect.ReadZip(b)
		if err != nil {
			return nil
		}
		root, err := inspect.ParseXML(pkg.Parts["word/document.xml"])
		if err != nil {
			return nil
		}
		sects := root.Child(inspect.NsW, "body").Children(inspect.NsW, "sectPr")
		if len(sects) == 0 {
			if st.sizeWritten {
				return []sim.Violation{v("saved-settings", "sectPr-missing", "page settings were set but the saved main part has no w:sectPr")}
			}
			return nil
		}
		sp := sects[len(sects)-1]
		tw := func(n *inspect.Node, attr string) float64 {
			f, _ := strconv.ParseFloat(n.Attr(inspect.NsW, attr), 64)
			return f
		}
		mm := func(x float64) float64 { return x * 56.692913385827 }
		var out []sim.Violation
		if st.sizeWritten {
			pg := sp.Child(inspect.NsW, "pgSz")
			if pg == nil {
				return []sim.Violation{v("saved-settings", "pgSz-missing", "w:pgSz is missing although a page-setting call succeeded")}
			}
			pw, ph := st.physical()
			rec := recognised(pw, ph)
			okDims := near(tw(pg, "w"), mm(pw), 1.01) && near(tw(pg, "h"), mm(ph), 1.01)
			if !okDims && st.size == "Custom" {
				for _, n := range rec { // snapped to the recognised predefined size: within the documented tolerance
					d := c12sizes[n]
					if (near(tw(pg, "w"), mm(d[0]), 1.01) && near(tw(pg, "h"), mm(d[1]), 1.01)) || (near(tw(pg, "w"), mm(d[1]), 1.01) && near(tw(pg, "h"), mm(d[0]), 1.01)) {
						okDims = true
					}
				}
			}
			if !okDims {
				cls := "pgSz"
				if near(tw(pg, "w"), mm(ph), 1.01) && near(tw(pg, "h"), mm(pw), 1.01) {
					cls = "pgSz-flipped"
				}
				out = append(out, v("saved-settings", cls, fmt.Sprintf("w:pgSz is %s x %s twips, the model says %.0f x %.0f (size %s %.2fx%.2f landscape=%v)", pg.Attr(inspect.NsW, "w"), pg.Attr(inspect.NsW, "h"), mm(pw), mm(ph), st.size, st.cw, st.ch, st.landscape)))
			}
			if o := pg.Attr(inspect.NsW, "orient"); (o == "landscape") != st.landscape {
				out = append(out, v("saved-settings", "orient", fmt.Sprintf("w:orient=%q, model landscape=%v", o, st.landscape)))
			}
			if mar := sp.Child(inspect.NsW, "pgMar"); mar != nil {
				for _, x := range []struct {
					a string
					v float64
				}{{"top", st.mt}, {"right", st.mr}, {"bottom", st.mb}, {"left", st.ml}, {"header", st.hd}, {"footer", st.fd}, {"gutter", st.gutter}} {
					if !near(tw(mar, x.a), mm(x.v), 1.01) {
						out = append(out, v("saved-settings", "pgMar-"+x.a, fmt.Sprintf("w:pgMar/@w:%s is %s twips, the model says %.0f", x.a, mar.Attr(inspect.NsW, x.a), mm(x.v))))
						break
					}
				}
			} else {
				out = append(out, v("saved-settings", "pgMar-missing", "w:pgMar is missing"))
			}
		}
		grid := sp.Child(inspect.NsW, "docGrid")
		switch {
		case st.cleared && grid != nil:
			out = append(out, v("saved-settings", "cleared-grid-is-back", fmt.Sprintf("the document grid was cleared and no later call named it, but the saved section has w:docGrid type=%q", grid.Attr(inspect.NsW, "type"))))
		case !st.cleared && st.sizeWritten && grid != nil:
			cs := 0
			if x := grid.Attr(inspect.NsW, "charSpace"); x != "" {
				cs, _ = strconv.Atoi(x)
			}
			lp, _ := strconv.Atoi(grid.Attr(inspect.NsW, "linePitch"))
			if grid.Attr(inspect.NsW, "type") != st.gridType || lp != st.pitch || cs != st.charSpace {
				out = append(out, v("saved-settings", "docGrid", fmt.Sprintf("w:docGrid is (%s, %d, %d), the model says (%s, %d, %d)", grid.Attr(inspect.NsW, "type"), lp, cs, st.gridType, st.pitch, st.charSpace)))
			}
		}
		if len(out) > 1 {
			out = out[:1]
		}
		return out
	}
	_, viol := runHistory(c, env, "c12", obs, nil)
	if len(viol) > 1 && c.Lane != "B" {
		viol = viol[:1]
	}
	return viol
}

func (c12) Witnesses() []*sim.Case {
	mk := func(note string, ops ...sim.Op) *sim.Case {
		ops = append(ops, sim.Op{K: "save"})
		return &sim.Case{Prop: "C12", Lane: "B", Note: note, Order: "sorted", Cfg: map[string]int{}, Tasks: [][]sim.Op{ops}}
	}
	custom := sim.Op{K: "pg.custom", F: []float64{100, 200}}
	land := sim.Op{K: "pg.orient", S: []sim.Str{"landscape"}}
	margins := sim.Op{K: "pg.margins", F: []float64{10, 10, 10, 10}}
	return []*sim.Case{
		mk("custom-landscape: read-back is swapped", custom, land),
		func() *sim.Case {
			w := mk("custom-landscape: the page flips on the next setter", custom, land, sim.Op{K: "save"}, margins)
			w.Cfg["saved_only"] = 1
			return w
		}(),
		mk("cleared-grid-is-back", sim.Op{K: "pg.grid", S: []sim.Str{"lines"}, I: []int{400, 0}}, sim.Op{K: "pg.cleargrid"}, sim.Op{K: "save"}, margins),
		mk("unknown-size-name", sim.Op{K: "pg.size", S: []sim.Str{"B5"}}),
	}
}
