package props

import (
	"os"

	"github.com/zerx-lab/wordZero/pkg/document"

	"verif/sim"
	"verif/simrt"
	"verif/world"
)

// Wild removes the lane-A generator constraints (development tool: the output
// is read by a person, never by a registered command).
var Wild = os.Getenv("VERIF_WILD") != ""

// saveOracle is evaluated at every save event of a history.
type saveOracle func(w *world.World, ds *world.Doc, b []byte) []sim.Violation

type histObserver struct {
	onSave    saveOracle
	after     func(w *world.World, op sim.Op, ds *world.Doc, o *world.Obs)
	onRestart func(w *world.World, ds *world.Doc)
	panics    bool // report library panics as violations of this property
}

func (h *histObserver) After(w *world.World, op sim.Op, ds *world.Doc, o *world.Obs) {
	if o.Panic != "" {
		ds.Dead = true
		w.Stats.Probe("library_panic")
		if h.panics {
			w.Fail("panic", o.Panic, "operation "+op.K+" panicked")
			return
		}
	}
	if h.after != nil {
		h.after(w, op, ds, o)
	}
}

func (h *histObserver) OnSave(w *world.World, ds *world.Doc, b []byte) {
	if h.onSave == nil {
		return
	}
	for _, x := range h.onSave(w, ds, b) {
		w.Viol = append(w.Viol, x)
	}
}

func (h *histObserver) OnRestart(w *world.World, ds *world.Doc) {
	if h.onRestart != nil {
		h.onRestart(w, ds)
	}
}

// runHistory executes a single-task history (ops may address several
// document slots: that is interleaving at operation granularity) under the
// case's map-order policy, from a fresh process state.
func runHistory(c *sim.Case, env *Env, name string, obs *histObserver, setup func(w *world.World)) (*world.World, []sim.Violation) {
	document.VerifResetProcessState()
	ord := simrt.InstallOrder(c.Order, c.OrderSeed, 0, nil)
	defer simrt.Uninstall()
	dir := env.MkTmp(name)
	defer os.RemoveAll(dir)
	w := world.New(env.Stats, env.Log, dir)
	w.ShortReadRng = sim.NewRand(c.OrderSeed ^ 0x5151)
	w.Obsv = append(w.Obsv, obs)
	if setup != nil {
		setup(w)
	}
	if len(c.Tasks) > 0 {
		w.Run(c.Tasks[0])
	}
	env.Stats.ProbeN("keys_calls_with_choice", ord.Calls)
	env.Stats.ProbeN("keys_calls_reordered", ord.Changed)
	env.Stats.Probe("order_" + c.Order)
	return w, w.Viol
}

// orderPolicy draws a map-order policy.
func orderPolicy(r *sim.Rand) string {
	return []string{"sorted", "reverse", "rotate", "shuffle", "mixed", "shuffle"}[r.Intn(6)]
}

// sprinkleSaves inserts save / restart operations into an op list: about
// one every `every` ops, always one at the end. restartP is the share of
// restarts among them.
func sprinkleSaves(r *sim.Rand, ops []sim.Op, d int, every int, restartP float64, procRestartP float64) []sim.Op {
	var out []sim.Op
	for i, op := range ops {
		out = append(out, op)
		if i == len(ops)-1 || r.Intn(every) == 0 {
			switch {
			case r.Chance(procRestartP):
				out = append(out, sim.Op{K: "prestart", D: d, I: []int{r.Intn(2), r.Intn(3)}})
			case r.Chance(restartP):
				out = append(out, sim.Op{K: "restart", D: d, I: []int{r.Intn(2), r.Intn(3)}})
			default:
				out = append(out, sim.Op{K: "save", D: d, I: []int{r.Intn(2)}})
			}
		}
	}
	return out
}

// interleave merges op lists preserving each list's order.
func interleave(r *sim.Rand, lists ...[]sim.Op) []sim.Op {
	var out []sim.Op
	idx := make([]int, len(lists))
	for {
		var live []int
		for i := range lists {
			if idx[i] < len(lists[i]) {
				live = append(live, i)
			}
		}
		if len(live) == 0 {
			return out
		}
		k := live[r.Intn(len(live))]
		out = append(out, lists[k][idx[k]])
		idx[k]++
	}
}
