package props

import (
	"fmt"
	"os"

	"github.com/zerx-lab/wordZero/pkg/document"

	"verif/sim"
	"verif/simrt"
	"verif/world"
)

// Wild removes the lane-A generator constraints (development tool: the output
// is read by a person, never by a registered command).
var Wild = os.Getenv("VERIF_WILD") != ""

// saveOracle is evaluated at every save event of a history.
type saveOracle func(w *world.World, ds *world.Doc, b []byte) []sim.Violation

type histObserver struct {
	onSave    saveOracle
	after     func(w *world.World, op sim.Op, ds *world.Doc, o *world.Obs)
	onRestart func(w *world.World, ds *world.Doc)
	panics    bool // report library panics as violations of this property
}

func (h *histObserver) After(w *world.World, op sim.Op, ds *world.Doc, o *world.Obs) {
	if op.K == "savefail" && o.Res == "nil-despite-failed-call" {
		w.Fail("save-nil-on-failed-call", "file-system-call-failed", "a file-system call inside Save failed (injected) and Save returned nil")
		return
	}
	if o.Panic != "" {
		ds.Dead = true
		w.Stats.Probe("library_panic")
		if h.panics {
			w.Fail("panic", o.Panic, "operation "+op.K+" panicked")
			return
		}
	}
	if h.after != nil {
		h.after(w, op, ds, o)
	}
}

func (h *histObserver) OnSave(w *world.World, ds *world.Doc, b []byte) {
	if h.onSave == nil {
		return
	}
	for _, x := range h.onSave(w, ds, b) {
		w.Viol = append(w.Viol, x)
	}
}

func (h *histObserver) OnRestart(w *world.World, ds *world.Doc) {
	if h.onRestart != nil {
		h.onRestart(w, ds)
	}
}

// runHistory executes a single-task history (ops may address several
// document slots: that is interleaving at operation granularity) under the
// case's map-order policy, from a fresh process state.
func runHistory(c *sim.Case, env *Env, name string, obs *histObserver, setup func(w *world.World)) (*world.World, []sim.Violation) {
	document.VerifResetProcessState()
	ord := simrt.InstallOrder(c.Order, c.OrderSeed, 0, nil)
	defer simrt.Uninstall()
	dir := env.MkTmp(name)
	defer os.RemoveAll(dir)
	w := world.New(env.Stats, env.Log, dir)
	w.ShortReadRng = sim.NewRand(c.OrderSeed ^ 0x5151)
	w.Stable = c.C("stable") == 1
	w.Obsv = append(w.Obsv, obs)
	if setup != nil {
		setup(w)
	}
	if len(c.Tasks) > 0 {
		w.Run(c.Tasks[0])
	}
	env.Stats.ProbeN("keys_calls_with_choice", ord.Calls)
	env.Stats.ProbeN("keys_calls_reordered", ord.Changed)
	env.Stats.Probe("order_" + c.Order)
	return w, w.Viol
}

// orderPolicy draws a map-order policy.
func orderPolicy(r *sim.Rand) string {
	return []string{"sorted", "reverse", "rotate", "shuffle", "mixed", "shuffle"}[r.Intn(6)]
}

// preemptMean draws the mean gap (in preemption points of the instrumented library) between two preemptions inside
// library calls for one run: 0 = only at operation boundaries, lock operations and file-system calls.
func preemptMean(r *sim.Rand) int {
	return []int{0, 0, 20, 200, 200, 2000, 20000}[r.Intn(7)]
}

// sprinkleSaves inserts save / restart operations into an op list: about
// one every `every` ops, always one at the end. restartP is the share of
// restarts among them.
func sprinkleSaves(r *sim.Rand, ops []sim.Op, d int, every int, restartP float64, procRestartP float64) []sim.Op {
	return sprinkleSavesOpt(r, ops, d, every, restartP, procRestartP, true)
}

// sprinkleSavesOpt: failing saves are injected through process-wide hooks of the file-system seam, so a
// workload whose tasks run concurrently must not contain them (failingSaves=false).
func sprinkleSavesOpt(r *sim.Rand, ops []sim.Op, d int, every int, restartP float64, procRestartP float64, failingSaves bool) []sim.Op {
	var out []sim.Op
	for i, op := range ops {
		out = append(out, op)
		if i == len(ops)-1 || r.Intn(every) == 0 {
			if failingSaves && r.Chance(0.12) { // a Save that fails at its k-th file-system call (must change nothing)
				out = append(out, sim.Op{K: "savefail", D: d, I: []int{r.Intn(2)}})
			}
			switch {
			case r.Chance(procRestartP):
				out = append(out, sim.Op{K: "prestart", D: d, I: []int{r.Intn(2), r.Intn(3)}})
			case r.Chance(restartP):
				out = append(out, sim.Op{K: "restart", D: d, I: []int{r.Intn(2), r.Intn(3)}})
			default:
				out = append(out, sim.Op{K: "save", D: d, I: []int{r.Intn(2)}})
			}
		}
	}
	return out
}

// interleave merges op lists preserving each list's order.
func interleave(r *sim.Rand, lists ...[]sim.Op) []sim.Op {
	var out []sim.Op
	idx := make([]int, len(lists))
	for {
		var live []int
		for i := range lists {
			if idx[i] < len(lists[i]) {
				live = append(live, i)
			}
		}
		if len(live) == 0 {
			return out
		}
		k := live[r.Intn(len(live))]
		out = append(out, lists[k][idx[k]])
		idx[k]++
	}
}

// templateScenario: a base document (slot 0) with placeholders is loaded once
// as a template and rendered two or three times (slots 1..); the rendered
// documents are then extended independently - above all with things that
// append to tables the clone may share with the template or with each other
// (content types, relationships, parts) - and saved only afterwards, the first
// one last.
func templateScenario(r *sim.Rand, g *world.Gen) []sim.Op {
	var ops []sim.Op
	ops = append(ops, g.DocOps(0, r.Range(1, 8))...)
	ops = append(ops, sim.Op{K: "para", S: []sim.Str{"Dear {{name}}, welcome to {{city}}"}})
	if r.Bool() {
		ops = append(ops, sim.Op{K: "para", S: []sim.Str{"{{#image pic}}"}})
	}
	// vary how many relationships / content-type defaults the template has (spare capacity of its slices)
	for i := r.Intn(4); i > 0; i-- {
		kind := []string{"default", "first", "even"}[i%3]
		ops = append(ops, sim.Op{K: r.Pick("hdr", "ftr"), S: []sim.Str{sim.Str(kind), "H {{title}}"}})
	}
	if r.Bool() {
		ops = append(ops, sim.Op{K: "img", I: []int{0, 6, 6, 4242, 0, 0, 0, 0}, S: []sim.Str{"base.png", "a", "t"}, F: []float64{0, 0, 0, 0}})
	}
	n := r.Range(2, 3)
	lateBaseEdits := r.Chance(0.35)
	// some scenarios are a mail merge: one data object with one logo, reused for every render, only the variables set again
	shared, picFmt := btoiP(r.Chance(0.35)), r.Intn(3)
	for d := 1; d <= n; d++ {
		pic := world.TplImageSpec(r, []int{r.Intn(3), 5, 5, 7000 + d})
		if shared == 1 {
			pic = append([]int{picFmt, 5, 5, 7000}, pic[4:]...)
		}
		data := &world.TData{Vars: map[string]any{"name": fmt.Sprintf("N%d", d), "city": "C", "title": "T"}, Images: map[string][]int{"pic": pic}}
		ops = append(ops, sim.Op{K: "tpl.render", D: d, I: []int{0, 1, 0, shared, 1}, S: []sim.Str{sim.Str(data.JSON())}})
		if d < n && lateBaseEdits {
			// the template document goes on being edited after it was loaded (no reload): whatever a later render takes from
			// it - body, relationships, parts - must still fit together
			fam := g.Fam
			g.Fam = world.FBody | world.FImage | world.FHF | world.FList | world.FNote
			ops = append(ops, g.DocOps(0, r.Range(1, 4))...)
			g.Fam = fam
		}
	}
	if lateBaseEdits && r.Bool() {
		ops = append(ops, sim.Op{K: "save", D: 0, I: []int{r.Intn(2)}})
	}
	var lists [][]sim.Op
	for d := 1; d <= n; d++ {
		g2 := world.NewGen(r.Fork())
		g2.Alpha = []int{0}
		g2.Fam = world.FImage | world.FHF | world.FBody
		if r.Bool() {
			g2.Fam |= world.FNote | world.FList
		}
		g2.RectTablesOnly, g2.WellFormedMath = true, true
		dops := g2.DocOps(d, r.Range(1, 6))
		// images of a format the template has not registered yet
		dops = append(dops, sim.Op{K: "img", D: d, I: []int{d % 3, 6, 6, 9000 + d, 0, 0, 0, 0}, S: []sim.Str{sim.Str("late" + []string{".png", ".jpeg", ".gif"}[d%3]), "a", "t"}, F: []float64{0, 0, 0, 0}})
		lists = append(lists, dops)
	}
	ops = append(ops, interleave(r, lists...)...)
	for d := n; d >= 1; d-- {
		ops = append(ops, sim.Op{K: "save", D: d, I: []int{r.Intn(2)}})
	}
	return ops
}
