package props

import (
	"archive/zip"
	"bytes"
	"fmt"
	"os"
	"strings"

	"github.com/zerx-lab/wordZero/pkg/document"

	"verif/inspect"
	"verif/sim"
	"verif/simrt"
	"verif/world"
)

// C03 — saving then opening a document loses nothing the library can express.
//
// The persistence boundary as restart: build through the API, save, drop the
// object, open (through one of three paths), save again, and again. The first
// reopen must not lose anything; every later cycle must be a fixpoint.
type c03 struct{}

func init() { Register(c03{}) }

func (c03) ID() string     { return "C03" }
func (c03) Flavor() string { return "instr" }
func (c03) Runs(tier string) int {
	if tier == "thorough" {
		return 80000
	}
	return 2500
}

func (c03) Describe() Description {
	return Description{
		Rule: "one case = a document built through the API with a swarm-selected subset of: every paragraph/run formatting setter and its argument range, text with leading/trailing " +
			"spaces, tabs, newlines and non-ASCII, tables of all shapes with horizontal/vertical/range merges, cell formats, nested tables, cell images and lists, inline and floating " +
			"images, page breaks, lists, section settings, headers/footers; then 1-4 restart cycles (save through one of two entry points, drop the object, open through Open(path) / " +
			"OpenFromMemory / OpenFromMemory with short reads), under a simulator-chosen map-iteration order. Oracle (independent parser): (1) every difference between the main part " +
			"of the first save and of the save after the first reopen is a violation, identified by its element path (lost / added / changed); the other parts must be canonically equal; " +
			"(2) every later cycle is a strict fixpoint of the canonical package; (3) the in-memory body returned by Open has the paragraph texts the saved bytes have; (4) media parts " +
			"are byte-equal; (5) all three open paths give the same canonical re-save. Non-trivial = >= 4 content operations and >= 1 completed cycle; distinct = distinct fingerprints.",
		Assumptions: []string{"canonical comparison ignores namespace prefixes, attribute order, layout whitespace and the order inside map-filled registries"},
		RealVsStub:  map[string]string{"real": "whole writer and reader, both save and all three open paths, file system", "stub": "map iteration order; short-read reader"},
	}
}

func (c03) Nontrivial(c *sim.Case, st *sim.Stats) bool {
	return c.NOps() >= 5 && st.Probes["cycles_completed"] >= 1
}

func (c03) Gen(r *sim.Rand, c *sim.Case, tier string) {
	g := world.NewGen(r)
	g.Extra = true
	g.Alpha = []int{0}
	for _, cls := range []int{3, 4, 1} {
		if r.Chance(0.4) {
			g.Alpha = append(g.Alpha, cls)
		}
	}
	g.Fam = world.FBody
	for _, f := range []int{world.FParaFmt, world.FTable, world.FTableFmt, world.FImage, world.FHF, world.FPage, world.FList, world.FProp, world.FStyle, world.FNote, world.FMath, world.FTOC} {
		if r.Chance(0.45) {
			g.Fam |= f
		}
	}
	g.HFOncePerKind, g.RectTablesOnly, g.WellFormedMath, g.NoTableTemplates = true, true, true, true
	g.MaxRows, g.MaxCols = r.Range(2, 5), r.Range(2, 5)
	ops := g.DocOps(0, r.Range(4, 35))
	if r.Bool() {
		// the document is saved while it is being built (an autosave): what is saved at the end must be what it would
		// have been without those saves
		var withSaves []sim.Op
		for _, op := range ops {
			withSaves = append(withSaves, op)
			if r.Chance(0.15) {
				withSaves = append(withSaves, sim.Op{K: "save", I: []int{r.Intn(2)}})
			}
		}
		ops = withSaves
	}
	n := r.Range(1, 4)
	for i := 0; i < n; i++ {
		cyc := sim.Op{K: "c3.cycle", I: []int{r.Intn(2), r.Intn(3), 0, 0, 0}}
		if r.Chance(0.5) {
			// storage fault on the saved bytes before they are opened (a copy; the cycle itself continues from the intact bytes):
			// kind, entry selector, position inside the entry's data
			cyc.I[2], cyc.I[3], cyc.I[4] = 1+r.Intn(3), r.Intn(1000), r.Intn(100000)
		}
		ops = append(ops, cyc)
	}
	c.Tasks = [][]sim.Op{ops}
	c.Order = orderPolicy(r)
	c.OrderSeed = r.Uint64()
}

// paraTexts lists, for every top-level paragraph of a main part, the
// concatenated text of its direct runs.
func paraTexts(root *inspect.Node) []string {
	var out []string
	body := root.Child(inspect.NsW, "body")
	for _, k := range body.Elems() {
		if !k.Is(inspect.NsW, "p") {
			continue
		}
		var sb strings.Builder
		for _, r := range k.Children(inspect.NsW, "r") {
			for _, t := range r.Children(inspect.NsW, "t") {
				sb.WriteString(t.InnerText())
			}
		}
		out = append(out, sb.String())
	}
	return out
}

func (c03) Exec(c *sim.Case, env *Env) []sim.Violation {
	document.VerifResetProcessState()
	simrt.InstallOrder(c.Order, c.OrderSeed, 0, nil)
	defer simrt.Uninstall()
	dir := env.MkTmp("c03")
	defer os.RemoveAll(dir)
	w := world.New(env.Stats, env.Log, dir)
	w.ShortReadRng = sim.NewRand(c.OrderSeed ^ 0x5151)
	w.Stable = c.C("stable") == 1
	var viol []sim.Violation
	seen := map[string]bool{}
	add := func(clause, sig, detail string) {
		if !seen[clause+"|"+sig] {
			seen[clause+"|"+sig] = true
			viol = append(viol, sim.Violation{Clause: clause, Sig: sig, Detail: detail})
		}
	}
	ds := w.Doc(0)
	var prev []byte     // bytes of the previous save
	var prevC *CanonPkg // its canonical form
	cycle := 0
	for _, op := range c.Tasks[0] {
		if op.K != "c3.cycle" {
			o := w.Apply(op)
			if o.Panic != "" {
				return nil // a panic while building is some other property's finding
			}
			continue
		}
		if ds.Dead {
			return viol
		}
		if prev == nil {
			var err error
			var sig string
			var pn bool
			sig, pn = Guard(func() { prev, err = w.Serialize(ds, op.Int(0)) })
			if pn {
				add("panic", sig, "save panicked")
				return viol
			}
			if err != nil || prev == nil {
				return viol
			}
			prevC, err = CanonPackage(prev)
			if err != nil {
				return viol // C01's business
			}
			env.Log.Event("save0 %s", inspectHashLines(prevC.Summary()))
			// (0) saves made while the document was built are transparent: the same calls without them give the same package
			nsaves := 0
			for _, bop := range c.Tasks[0] {
				if bop.K == "save" {
					nsaves++
				}
			}
			if nsaves > 0 {
				document.VerifResetProcessState()
				wb := world.New(sim.NewStats(), &sim.Log{}, dir)
				wb.FilePrefix = "ref"
				for _, bop := range c.Tasks[0] {
					if bop.K == "c3.cycle" {
						break
					}
					if bop.K != "save" {
						if o := wb.Apply(bop); o.Panic != "" {
							return viol
						}
					}
				}
				var refB []byte
				if _, pn := Guard(func() { refB, err = wb.Serialize(wb.Doc(0), op.Int(0)) }); !pn && err == nil {
					if refC, cerr := CanonPackage(refB); cerr == nil {
						// (the styles part is left out: once written it is never regenerated - finding styles-frozen-after-serialisation of C13)
						delete(refC.Digest, "word/styles.xml")
						was, had := prevC.Digest["word/styles.xml"]
						delete(prevC.Digest, "word/styles.xml")
						if sg, det := PkgDiff(refC, prevC); sg != "" {
							add("save-not-transparent", sg, fmt.Sprintf("the document saved %d time(s) while it was built differs from the same calls without those saves: %s", nsaves, det))
						}
						if had {
							prevC.Digest["word/styles.xml"] = was
						}
						env.Stats.Probe("save_transparency_compared")
					}
				}
			}
		}
		// ---- restart: open the previous bytes, save again
		var d2 *document.Document
		var oerr error
		if sig, pn := Guard(func() { d2, oerr = w.OpenBytesAt(prev, op.Int(1), ds.StablePath) }); pn {
			add("panic", sig, "Open panicked on a package the library itself wrote")
			return viol
		}
		if oerr != nil || d2 == nil {
			add("reopen-failed", "open-error", fmt.Sprintf("cycle %d: the library cannot open what it saved: %v", cycle, oerr))
			return viol
		}
		// (3) in-memory body vs the bytes it was read from
		if root := prevC.Trees["word/document.xml"]; root != nil && d2.Body != nil {
			want := paraTexts(root)
			var got []string
			for _, p := range d2.Body.GetParagraphs() {
				var sb strings.Builder
				for i := range p.Runs {
					sb.WriteString(p.Runs[i].Text.Content)
				}
				got = append(got, sb.String())
			}
			if len(got) != len(want) {
				add("in-memory-body", "paragraph-count", fmt.Sprintf("cycle %d: the bytes have %d top-level paragraphs, the opened body %d", cycle, len(want), len(got)))
			} else {
				for i := range want {
					if want[i] != got[i] {
						add("in-memory-body", "paragraph-text", fmt.Sprintf("cycle %d: paragraph %d reads %q in the bytes and %q in the opened body", cycle, i, clip(want[i]), clip(got[i])))
						break
					}
				}
			}
		}
		ds.D = d2
		var next []byte
		var serr error
		if sig, pn := Guard(func() { next, serr = w.Serialize(ds, op.Int(0)) }); pn {
			add("panic", sig, "saving a reopened document panicked")
			return viol
		}
		if serr != nil {
			add("resave-failed", "save-error", serr.Error())
			return viol
		}
		nextC, cerr := CanonPackage(next)
		if cerr != nil {
			add("resave-failed", "unreadable", cerr.Error())
			return viol
		}
		if cycle == 0 {
			// (1) first reopen: every difference of the main part, by path
			ra, rb := prevC.Trees["word/document.xml"], nextC.Trees["word/document.xml"]
			if ra != nil && rb != nil {
				nested := hasNestedTable(ra)
				if nested {
					env.Stats.Probe("nested_table_saved")
				}
				for _, d := range TreeDiffAll(ra, rb) {
					add("lost-on-reopen", "word/document.xml:"+d[0], d[1])
				}
			}
			// other parts: canonically equal
			for _, n := range sortedKeysS(prevC.Digest) {
				if n == "word/document.xml" {
					continue
				}
				if dn, ok := nextC.Digest[n]; !ok {
					add("part-changed-on-reopen", normPart(n)+":part-lost", "part "+n+" is gone after open+save")
				} else if dn != prevC.Digest[n] {
					sig, det := normPart(n)+":bytes", "part "+n+" differs"
					if ta, tb := prevC.Trees[n], nextC.Trees[n]; ta != nil && tb != nil {
						p, d := TreeDiff(ta, tb)
						sig, det = normPart(n)+":"+p, n+": "+d
					}
					add("part-changed-on-reopen", sig, det)
				}
			}
			for _, n := range sortedKeysS(nextC.Digest) {
				if _, ok := prevC.Digest[n]; !ok {
					add("part-changed-on-reopen", normPart(n)+":part-added", "part "+n+" appears after open+save")
				}
			}
			// (5) the other open paths give the same re-save
			for via := 0; via < 3; via++ {
				if via == op.Int(1) {
					continue
				}
				var d3 *document.Document
				var e3 error
				var b3 []byte
				if sig, pn := Guard(func() {
					d3, e3 = w.OpenBytes(prev, via)
					if e3 == nil && d3 != nil {
						b3, e3 = d3.ToBytes()
					}
				}); pn {
					add("panic", sig, "Open panicked")
					continue
				}
				if e3 != nil {
					add("open-paths-differ", fmt.Sprintf("path%d-fails", via), fmt.Sprintf("open path %d fails (%v) where path %d succeeds", via, e3, op.Int(1)))
					continue
				}
				if c3, err := CanonPackage(b3); err == nil {
					if sg, det := PkgDiff(nextC, c3); sg != "" {
						add("open-paths-differ", sg, fmt.Sprintf("open path %d vs %d: %s", op.Int(1), via, det))
					}
				}
			}
		} else {
			// (2) later cycles are fixpoints, strictly
			if sg, det := PkgDiff(prevC, nextC); sg != "" {
				add("cycle-not-stable", sg, fmt.Sprintf("cycle %d changed the package again: %s", cycle, det))
			}
		}
		// (6) storage fault between save and open: the data of one entry of the saved file is damaged at rest. Every entry carries a
		// checksum, so the open either fails or - when the damage happens not to change the content - yields the same document;
		// it never succeeds with other content ("may fail, never returns wrong data").
		if op.Int(2) > 0 {
			if damaged, what := damageEntryData(prev, op.Int(2), op.Int(3), op.Int(4)); damaged != nil {
				env.Stats.Fault(what)
				var d4 *document.Document
				var e4 error
				var b4 []byte
				if sig, pn := Guard(func() {
					d4, e4 = w.OpenBytes(damaged, op.Int(1))
					if e4 == nil && d4 != nil {
						b4, e4 = d4.ToBytes()
					}
				}); pn {
					add("panic", sig, "Open panicked on a damaged copy of a package the library wrote")
				} else if e4 != nil || d4 == nil {
					env.Stats.Probe("damage_detected")
				} else if c4, err := CanonPackage(b4); err != nil {
					add("damaged-data-accepted", "resave-unreadable", fmt.Sprintf("cycle %d, %s: Open accepted the damaged file and the document saves to an unreadable package: %v", cycle, what, err))
				} else if sg, det := PkgDiff(nextC, c4); sg != "" {
					add("damaged-data-accepted", normSigPart(sg), fmt.Sprintf("cycle %d, %s: Open accepted the damaged file and returned other content than the intact file holds: %s", cycle, what, det))
				} else {
					env.Stats.Probe("damage_harmless")
				}
			}
		}
		env.Stats.Probe("cycles_completed")
		env.Log.Event("cycle %d via=%d/%d -> %s", cycle, op.Int(0), op.Int(1), inspectHashLines(nextC.Summary()))
		prev, prevC = next, nextC
		cycle++
	}
	return viol
}

// damageEntryData returns a copy of a ZIP file with damage inside the (compressed) data of one entry - the region its checksum
// covers - and a name for the fault kind; nil if there is no such region.
func damageEntryData(b []byte, kind, sel, pos int) ([]byte, string) {
	zr, err := zip.NewReader(bytes.NewReader(b), int64(len(b)))
	if err != nil {
		return nil, ""
	}
	type span struct{ off, n int64 }
	var spans []span
	for _, f := range zr.File {
		off, err := f.DataOffset()
		if err == nil && f.CompressedSize64 > 0 && off+int64(f.CompressedSize64) <= int64(len(b)) {
			spans = append(spans, span{off, int64(f.CompressedSize64)})
		}
	}
	if len(spans) == 0 {
		return nil, ""
	}
	sp := spans[sel%len(spans)]
	at := sp.off + int64(pos)%sp.n
	out := append([]byte{}, b...)
	switch kind {
	case 1:
		out[at] ^= 1 << uint(pos%8)
		return out, "S-flip-data"
	case 2:
		changed := false
		for i := at; i < at+8 && i < sp.off+sp.n; i++ {
			if out[i] != 0 {
				changed = true
			}
			out[i] = 0
		}
		if !changed {
			return nil, ""
		}
		return out, "S-zero-data"
	default: // misdirected write: eight bytes from elsewhere in the file land here
		src := (int64(pos) * 7919) % int64(len(b)-8)
		if len(b) < 16 || bytes.Equal(b[src:src+8], b[at:minI64(at+8, sp.off+sp.n)]) {
			return nil, ""
		}
		copy(out[at:minI64(at+8, sp.off+sp.n)], b[src:src+8])
		return out, "S-misdirected-data"
	}
}

func minI64(a, b int64) int64 {
	if a < b {
		return a
	}
	return b
}

// normSigPart keeps the part name and the kind of difference of a package diff signature (paths inside differ per case).
func normSigPart(sg string) string {
	if i := strings.Index(sg, ":"); i > 0 {
		return sg[:i] + ":other-content"
	}
	return sg
}

func (c03) Witnesses() []*sim.Case { return c03Witnesses() }
