package props

import (
	"fmt"
	"strconv"
	"strings"

	"verif/inspect"
	"verif/sim"
	"verif/world"
)

// C11 — each header/footer kind has exactly one, current, resolvable definition.
type c11 struct{}

func init() { Register(c11{}) }

func (c11) ID() string     { return "C11" }
func (c11) Flavor() string { return "instr" }
func (c11) Runs(tier string) int {
	if tier == "thorough" {
		return 200000
	}
	return 8000
}

func (c11) Describe() Description {
	return Description{
		Rule: "one case = a seeded history of AddHeader / AddFooter / Add*WithPageNumber / AddFormatted* over the three kinds, REPEATED for the same kind, with SetDifferentFirstPage, interleaved " +
			"with page-setting calls (which may create the section settings first), images, list items and body edits, save events through both entry points, document restarts, and rendering " +
			"the document as a template (the render is then checked and edited further). Reference model = kind -> last call's (text, formatting, alignment, page-number flag) for headers and for " +
			"footers. At EVERY save event (independent parser): w:sectPr has at most one w:headerReference and one w:footerReference per w:type; each resolves through word/_rels/document.xml.rels " +
			"to a relationship of the matching type whose target part exists; that part's paragraph text, run formatting, alignment and PAGE field equal the model's entry; kinds never set are not " +
			"referenced. Non-trivial = >= 2 header/footer calls incl. >= 1 repeated kind or >= 1 restart/render, and >= 1 save; distinct = distinct fingerprints.",
		Assumptions: []string{"a header/footer text is compared after the writer's own XML escaping (the independent parser unescapes)"},
		RealVsStub:  map[string]string{"real": "header/footer API, section settings writer/reader, template engine clone", "stub": "map iteration order"},
	}
}

var c11hf = map[string]bool{"hdr": true, "ftr": true, "hdrpn": true, "ftrpn": true, "fhdr": true, "fftr": true}

func (c11) Nontrivial(c *sim.Case, st *sim.Stats) bool {
	n := int64(0)
	for k := range c11hf {
		n += st.Ops[k]
	}
	return n >= 2 && st.Probes["save_events"] >= 1 && (st.Probes["kind_set_again"] > 0 || st.Probes["restart_doc"] > 0 || st.Probes["template_renders"] > 0)
}

func (c11) Gen(r *sim.Rand, c *sim.Case, tier string) {
	g := world.NewGen(r)
	g.Alpha = []int{0}
	for _, cls := range []int{1, 3, 4} {
		if r.Chance(0.3) {
			g.Alpha = append(g.Alpha, cls)
		}
	}
	g.Fam = world.FHF
	other := world.NewGen(r.Fork())
	other.Alpha = []int{0}
	other.Fam = world.FBody
	for _, f := range []int{world.FPage, world.FImage, world.FList, world.FTable} {
		if r.Chance(0.4) {
			other.Fam |= f
		}
	}
	other.RectTablesOnly, other.NoJPGName = true, true
	var ops []sim.Op
	n := r.Range(3, 20)
	for len(ops) < n {
		if r.Chance(0.6) {
			ops = append(ops, g.DocOps(0, 1)...)
		} else {
			ops = append(ops, other.DocOps(0, 1)...)
		}
	}
	ops = sprinkleSaves(r, ops, 0, r.Range(2, 7), 0.4, 0)
	if r.Chance(0.35) {
		// the document is rendered as a template, twice from the one cached template; each render must carry the
		// same definitions and is then given header/footer calls of its own; the renders are saved only afterwards
		nr := r.Range(1, 2)
		for d := 1; d <= nr; d++ {
			data := &world.TData{Vars: map[string]any{"name": "N"}}
			ops = append(ops, sim.Op{K: "tpl.render", D: d, I: []int{0, 1, 0}, S: []sim.Str{sim.Str(data.JSON())}})
		}
		var lists [][]sim.Op
		for d := 1; d <= nr; d++ {
			g1 := world.NewGen(r.Fork())
			g1.Alpha, g1.Fam = []int{0}, world.FHF|world.FBody
			lists = append(lists, g1.DocOps(d, r.Range(1, 4)))
		}
		ops = append(ops, interleave(r, lists...)...)
		for d := nr; d >= 1; d-- {
			ops = append(ops, sim.Op{K: "save", D: d, I: []int{r.Intn(2)}})
		}
		ops = append(ops, sim.Op{K: "save", D: 0})
	}
	c.Tasks = [][]sim.Op{ops}
	c.Order = orderPolicy(r)
	c.OrderSeed = r.Uint64()
}

type c11entry struct {
	text        string
	pageNum     bool
	formatted   bool
	bold, ital  bool
	under, strk bool
	size        int
	color       string
	font        string
	highlight   string
	align       string
}

type c11model struct {
	hdr, ftr map[string]*c11entry // kind -> entry
}

func newC11model() *c11model {
	return &c11model{hdr: map[string]*c11entry{}, ftr: map[string]*c11entry{}}
}

func (m *c11model) clone() *c11model {
	n := newC11model()
	for k, v := range m.hdr {
		e := *v
		n.hdr[k] = &e
	}
	for k, v := range m.ftr {
		e := *v
		n.ftr[k] = &e
	}
	return n
}

var c11kinds = map[string]bool{"default": true, "first": true, "even": true}

// partFacts extracts what a header/footer part shows.
func partFacts(root *inspect.Node) (e c11entry) {
	ps := root.Children(inspect.NsW, "p")
	var sb strings.Builder
	for _, p := range ps {
		if jc := p.Child(inspect.NsW, "pPr").Child(inspect.NsW, "jc"); jc != nil {
			e.align = jc.Val()
		}
		for _, r := range p.Children(inspect.NsW, "r") {
			for _, t := range r.Children(inspect.NsW, "t") {
				sb.WriteString(t.InnerText())
			}
			for _, it := range r.Children(inspect.NsW, "instrText") {
				if strings.Contains(strings.ToUpper(it.InnerText()), "PAGE") {
					e.pageNum = true
				}
			}
			if rp := r.Child(inspect.NsW, "rPr"); rp != nil && len(r.Children(inspect.NsW, "t")) > 0 {
				e.bold = e.bold || rp.Child(inspect.NsW, "b") != nil
				e.ital = e.ital || rp.Child(inspect.NsW, "i") != nil
				e.under = e.under || rp.Child(inspect.NsW, "u") != nil
				e.strk = e.strk || rp.Child(inspect.NsW, "strike") != nil
				if x := rp.Child(inspect.NsW, "sz"); x != nil {
					e.size, _ = strconv.Atoi(x.Val())
				}
				if x := rp.Child(inspect.NsW, "color"); x != nil {
					e.color = x.Val()
				}
				if x := rp.Child(inspect.NsW, "rFonts"); x != nil {
					e.font = x.Attr(inspect.NsW, "ascii")
				}
				if x := rp.Child(inspect.NsW, "highlight"); x != nil {
					e.highlight = x.Val()
				}
			}
		}
	}
	e.text = sb.String()
	return e
}

func c11check(pkg *inspect.Package, m *c11model) []sim.Violation {
	root, err := inspect.ParseXML(pkg.Parts["word/document.xml"])
	if err != nil {
		return nil
	}
	rels, _ := pkg.Rels("word/_rels/document.xml.rels")
	byID := map[string]inspect.Rel{}
	for _, r := range rels {
		byID[r.ID] = r
	}
	var out []sim.Violation
	sects := root.Child(inspect.NsW, "body").Children(inspect.NsW, "sectPr")
	var sp *inspect.Node
	if len(sects) > 0 {
		sp = sects[len(sects)-1]
	}
	side := func(refName, relType, what string, model map[string]*c11entry) {
		seen := map[string]int{}
		var refs []*inspect.Node
		if sp != nil {
			refs = sp.Children(inspect.NsW, refName)
		}
		for _, ref := range refs {
			kind := ref.Attr(inspect.NsW, "type")
			seen[kind]++
			if seen[kind] == 2 {
				out = append(out, v("duplicate-reference", what+":"+kind, fmt.Sprintf("w:sectPr has more than one w:%s of type %q", refName, kind)))
				continue
			}
			want, set := model[kind]
			if !set {
				if c11kinds[kind] {
					out = append(out, v("unexpected-reference", what+":"+kind, fmt.Sprintf("w:%s type=%q although no %s of that kind was set", refName, kind, what)))
				}
				continue
			}
			rel, ok := byID[ref.Attr(inspect.NsR, "id")]
			if !ok || rel.Type != relType {
				out = append(out, v("unresolved-reference", what+":"+kind, fmt.Sprintf("w:%s type=%q r:id=%q does not resolve to a %s relationship", refName, kind, ref.Attr(inspect.NsR, "id"), what)))
				continue
			}
			data, ok := pkg.Parts[rel.Resolved]
			if !ok {
				out = append(out, v("unresolved-reference", what+":"+kind+":part-missing", fmt.Sprintf("%s %s -> %s is not in the package", what, kind, rel.Resolved)))
				continue
			}
			proot, err := inspect.ParseXML(data)
			if err != nil {
				continue // C01's business
			}
			got := partFacts(proot)
			wantText := want.text
			if want.pageNum && strings.HasPrefix(got.text, want.text) {
				wantText = got.text // the page-number variant appends its own wording around the PAGE field: only the caller's text is compared
			}
			stale := func(attr, detail string) {
				out = append(out, v("stale-or-wrong-content", what+":"+attr, fmt.Sprintf("%s %s (%s): %s", what, kind, rel.Resolved, detail)))
			}
			switch {
			case got.text != wantText:
				stale("text", fmt.Sprintf("shows %q, the most recent call for that kind set %q", clip(got.text), clip(wantText)))
			case got.pageNum != want.pageNum:
				stale("page-number-field", fmt.Sprintf("PAGE field present=%v, most recent call asked %v", got.pageNum, want.pageNum))
			case want.formatted && want.text != "" && (got.bold != want.bold || got.ital != want.ital || got.under != want.under || got.strk != want.strk || got.size != want.size*2 ||
				got.color != strings.TrimPrefix(want.color, "#") || got.font != want.font || got.highlight != want.highlight):
				stale("formatting", fmt.Sprintf("run formatting %+v differs from the most recent call %+v", got, *want))
			case want.formatted && got.align != want.align:
				stale("alignment", fmt.Sprintf("alignment %q, most recent call asked %q", got.align, want.align))
			}
		}
		for kind := range model {
			if seen[kind] == 0 && c11kinds[kind] {
				out = append(out, v("definition-lost", what+":"+kind, fmt.Sprintf("the %s of kind %q that was set is not referenced by w:sectPr", what, kind)))
			}
		}
	}
	side("headerReference", inspect.RelHdr, "header", m.hdr)
	side("footerReference", inspect.RelFtr, "footer", m.ftr)
	return out
}

func (c11) Exec(c *sim.Case, env *Env) []sim.Violation {
	models := map[int]*c11model{}
	get := func(slot int) *c11model {
		if models[slot] == nil {
			models[slot] = newC11model()
		}
		return models[slot]
	}
	obs := &histObserver{panics: true}
	obs.after = func(w *world.World, op sim.Op, ds *world.Doc, o *world.Obs) {
		if o.Skipped || ds.Dead {
			return
		}
		if op.K == "tpl.render" && o.Err == nil {
			models[ds.Slot] = get(op.Int(0)).clone() // a render carries the template's definitions
			return
		}
		if !c11hf[op.K] || o.Err != nil {
			return
		}
		m := get(ds.Slot)
		kind := op.Str(0)
		e := &c11entry{text: op.Str(1)}
		switch op.K {
		case "hdrpn", "ftrpn":
			e.pageNum = op.Int(0) != 0
		case "fhdr", "fftr":
			if op.Int(6) == 0 { // a config was given
				e.formatted = true
				e.align = op.Str(2)
				if op.Int(5) == 0 {
					e.bold, e.ital, e.size, e.under, e.strk = op.Int(0) != 0, op.Int(1) != 0, op.Int(2), op.Int(3) != 0, op.Int(4) != 0
					e.color, e.font, e.highlight = op.Str(3), op.Str(4), op.Str(5)
				}
			} else {
				e.text = ""
			}
		}
		side := m.hdr
		if op.K == "ftr" || op.K == "ftrpn" || op.K == "fftr" {
			side = m.ftr
		}
		if _, again := side[kind]; again {
			w.Stats.Probe("kind_set_again")
		}
		side[kind] = e
	}
	obs.onSave = func(w *world.World, ds *world.Doc, b []byte) []sim.Violation {
		pkg, err := inspect.ReadZip(b)
		if err != nil {
			return nil
		}
		out := c11check(pkg, get(ds.Slot))
		if len(out) > 1 && c.Lane != "B" {
			out = out[:1]
		}
		return out
	}
	_, viol := runHistory(c, env, "c11", obs, nil)
	if len(viol) > 1 && c.Lane != "B" {
		viol = viol[:1]
	}
	return viol
}

func (c11) Witnesses() []*sim.Case {
	mk := func(note string, ops ...sim.Op) *sim.Case {
		ops = append(ops, sim.Op{K: "save"}, sim.Op{K: "restart", I: []int{0, 0}}, sim.Op{K: "save", I: []int{1}})
		return &sim.Case{Prop: "C11", Lane: "B", Note: note, Order: "sorted", Cfg: map[string]int{}, Tasks: [][]sim.Op{ops}}
	}
	h := func(k, kind, text string) sim.Op { return sim.Op{K: k, S: []sim.Str{sim.Str(kind), sim.Str(text)}} }
	return []*sim.Case{
		mk("hf-duplicate-reference (fixed): default header set twice", h("hdr", "default", "one"), h("hdr", "default", "two")),
		mk("hf-duplicate-reference (fixed): footer kinds set repeatedly", h("ftr", "even", "a"), h("ftr", "first", "b"), h("ftr", "even", "c"), sim.Op{K: "ftrpn", S: []sim.Str{"even", "d"}, I: []int{1}}),
	}
}
