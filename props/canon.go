package props

import (
	"fmt"
	"regexp"
	"sort"
	"strings"

	"verif/inspect"
)

// Canonical forms of saved packages: the unit in which "the same bytes, up to
// what the format leaves free" is compared (DESIGN §3.6). Entry order, XML
// attribute order, namespace prefixes and layout whitespace are free; the
// order of the children of registries that the library fills by iterating a
// map (styles, numbering, notes, content types, relationships) is free; the
// three timestamps of docProps/core.xml are masked (wall clock).

var noteMarkerRe = regexp.MustCompile(`^\[(尾注)?[0-9]+\]$`)

// setContainers: elements whose children form a set (compared sorted).
var setContainers = map[string]bool{
	"w:styles": true, "w:numbering": true, "w:footnotes": true, "w:endnotes": true,
	"ct:Types": true, "rel:Relationships": true, "w:latentStyles": true,
}

var maskedText = map[string]bool{"dcterms:created": true, "dcterms:modified": true, "cp:lastPrinted": true}

// canonNode renders n canonically with set containers sorted and timestamps masked.
func canonNode(b *strings.Builder, n *inspect.Node) {
	if n == nil {
		return
	}
	name := n.Name()
	b.WriteByte('<')
	b.WriteString(name)
	as := make([]string, 0, len(n.Attrs))
	for _, a := range n.Attrs {
		as = append(as, inspect.QName(a.Space, a.Local)+"="+fmt.Sprintf("%q", a.Val))
	}
	sort.Strings(as)
	for _, a := range as {
		b.WriteByte(' ')
		b.WriteString(a)
	}
	b.WriteByte('>')
	if maskedText[name] {
		b.WriteString("\"T\"</>")
		return
	}
	sig := textSignificant(n)
	if setContainers[name] {
		var kids []string
		for _, k := range n.Kids {
			if k.Local == "" {
				continue
			}
			var kb strings.Builder
			canonNode(&kb, k)
			kids = append(kids, kb.String())
		}
		sort.Strings(kids)
		for _, k := range kids {
			b.WriteString(k)
		}
	} else {
		for _, k := range n.Kids {
			if k.Local == "" {
				if sig || strings.TrimSpace(k.Text) != "" {
					fmt.Fprintf(b, "%q", k.Text)
				}
				continue
			}
			canonNode(b, k)
		}
	}
	b.WriteString("</>")
}

// textSignificant: character data is content (kept verbatim, whitespace
// included) only inside the text-bearing elements; elsewhere whitespace-only
// text is layout and non-blank text is compared as it is.
func textSignificant(parent *inspect.Node) bool {
	switch parent.Local {
	case "t", "instrText", "delText", "lvlText":
		return true
	}
	return false
}

// CanonXML is the canonical string of an XML part ("" + error text if it does not parse).
func CanonXML(b []byte) (string, *inspect.Node) {
	root, err := inspect.ParseXML(b)
	if err != nil {
		return "!unparsable:" + xmlErrClass(err), nil
	}
	var sb strings.Builder
	canonNode(&sb, root)
	return sb.String(), root
}

func looksXML(name string, b []byte) bool {
	if strings.HasSuffix(name, ".xml") || strings.HasSuffix(name, ".rels") {
		return true
	}
	t := strings.TrimLeft(string(b[:minInt(len(b), 64)]), " \t\r\n\ufeff")
	return strings.HasPrefix(t, "<?xml")
}

// CanonPkg maps every part of a package to its canonical digest.
type CanonPkg struct {
	Digest map[string]string
	Trees  map[string]*inspect.Node
	Raw    map[string][]byte
}

func CanonPackage(b []byte) (*CanonPkg, error) {
	pkg, err := inspect.ReadZip(b)
	if err != nil {
		return nil, err
	}
	return CanonOf(pkg), nil
}

func CanonOf(pkg *inspect.Package) *CanonPkg {
	c := &CanonPkg{Digest: map[string]string{}, Trees: map[string]*inspect.Node{}, Raw: pkg.Parts}
	for _, n := range pkg.SortedNames() {
		data := pkg.Parts[n]
		if looksXML(n, data) {
			s, root := CanonXML(data)
			c.Digest[n] = inspect.Hash(s)
			c.Trees[n] = root
		} else {
			c.Digest[n] = "bin:" + inspect.Hash(string(data))
		}
	}
	return c
}

// Summary is one line per part, sorted: the observation recorded for a save event.
func (c *CanonPkg) Summary() []string {
	var out []string
	for _, n := range sortedKeysS(c.Digest) {
		out = append(out, n+"="+c.Digest[n])
	}
	return out
}

func sortedKeysS(m map[string]string) []string {
	ks := make([]string, 0, len(m))
	for k := range m {
		ks = append(ks, k)
	}
	sort.Strings(ks)
	return ks
}

// PkgDiff describes the first difference between two canonical packages:
// part (digits normalised) and, for XML parts, the path of the first
// difference. "" = equal.
func PkgDiff(a, b *CanonPkg) (sig, detail string) {
	names := map[string]bool{}
	for n := range a.Digest {
		names[n] = true
	}
	for n := range b.Digest {
		names[n] = true
	}
	var ns []string
	for n := range names {
		ns = append(ns, n)
	}
	sort.Strings(ns)
	for _, n := range ns {
		da, oka := a.Digest[n]
		db, okb := b.Digest[n]
		switch {
		case !oka:
			return normPart(n) + ":part-added", "part " + n + " exists only in the second package"
		case !okb:
			return normPart(n) + ":part-lost", "part " + n + " exists only in the first package"
		case da != db:
			ta, tb := a.Trees[n], b.Trees[n]
			if ta != nil && tb != nil {
				p, d := TreeDiff(ta, tb)
				return normPart(n) + ":" + p, n + ": " + d
			}
			return normPart(n) + ":bytes", "part " + n + " differs"
		}
	}
	return "", ""
}

// TreeDiff returns the path (element names, no indices) and a description of
// the first difference between two trees; set containers are compared as sets.
func TreeDiff(a, b *inspect.Node) (path, detail string) {
	return treeDiff(a, b, "")
}

func attrsOf(n *inspect.Node) map[string]string {
	m := map[string]string{}
	for _, x := range n.Attrs {
		m[inspect.QName(x.Space, x.Local)] = x.Val
	}
	return m
}

func clip(s string) string {
	if len(s) > 80 {
		return s[:80] + "…"
	}
	return s
}

func treeDiff(a, b *inspect.Node, at string) (string, string) {
	an, bn := a.Name(), b.Name()
	if an != bn {
		return at + "/" + an + ":renamed", fmt.Sprintf("element %s vs %s under %s", an, bn, at)
	}
	p := at + "/" + an
	aa, ba := attrsOf(a), attrsOf(b)
	for _, k := range sortedKeysS(aa) {
		v2, ok := ba[k]
		if !ok {
			return p + "@" + k + ":lost", fmt.Sprintf("%s: attribute %s=%q only in the first", p, k, clip(aa[k]))
		}
		if v2 != aa[k] {
			return p + "@" + k + ":changed", fmt.Sprintf("%s: attribute %s is %q vs %q", p, k, clip(aa[k]), clip(v2))
		}
	}
	for _, k := range sortedKeysS(ba) {
		if _, ok := aa[k]; !ok {
			return p + "@" + k + ":added", fmt.Sprintf("%s: attribute %s=%q only in the second", p, k, clip(ba[k]))
		}
	}
	if maskedText[an] {
		return "", ""
	}
	if setContainers[an] {
		ca, cb := map[string]*inspect.Node{}, map[string]*inspect.Node{}
		for _, k := range a.Elems() {
			var sb strings.Builder
			canonNode(&sb, k)
			ca[sb.String()] = k
		}
		for _, k := range b.Elems() {
			var sb strings.Builder
			canonNode(&sb, k)
			cb[sb.String()] = k
		}
		var ks []string
		for s := range ca {
			ks = append(ks, s)
		}
		sort.Strings(ks)
		for _, s := range ks {
			if _, ok := cb[s]; !ok {
				return p + "/" + ca[s].Name() + ":set-lost", fmt.Sprintf("%s: a %s child of the first is not in the second: %s", p, ca[s].Name(), clip(s))
			}
		}
		ks = ks[:0]
		for s := range cb {
			ks = append(ks, s)
		}
		sort.Strings(ks)
		for _, s := range ks {
			if _, ok := ca[s]; !ok {
				return p + "/" + cb[s].Name() + ":set-added", fmt.Sprintf("%s: a %s child of the second is not in the first: %s", p, cb[s].Name(), clip(s))
			}
		}
		if len(a.Elems()) != len(b.Elems()) {
			return p + ":set-multiplicity", fmt.Sprintf("%s: %d vs %d children", p, len(a.Elems()), len(b.Elems()))
		}
		return "", ""
	}
	sig := textSignificant(a) || textSignificant(b)
	ka, kb := contentKids(a, sig), contentKids(b, sig)
	for i := 0; i < len(ka) && i < len(kb); i++ {
		x, y := ka[i], kb[i]
		if x.Local == "" || y.Local == "" {
			if x.Local != "" || y.Local != "" {
				return p + ":text-vs-element", fmt.Sprintf("%s: child %d is text in one and an element in the other", p, i)
			}
			if x.Text != y.Text {
				if noteMarkerRe.MatchString(x.Text) && noteMarkerRe.MatchString(y.Text) {
					return p + ":text@note-marker", fmt.Sprintf("%s: note reference number %q vs %q", p, x.Text, y.Text)
				}
				return p + ":text", fmt.Sprintf("%s: text %q vs %q", p, clip(x.Text), clip(y.Text))
			}
			continue
		}
		if d, t := treeDiff(x, y, p); d != "" {
			return d, t
		}
	}
	if len(ka) > len(kb) {
		x := ka[len(kb)]
		return p + "/" + kidName(x) + ":lost", fmt.Sprintf("%s: child %d (%s) only in the first", p, len(kb), kidName(x))
	}
	if len(kb) > len(ka) {
		x := kb[len(ka)]
		return p + "/" + kidName(x) + ":added", fmt.Sprintf("%s: child %d (%s) only in the second", p, len(ka), kidName(x))
	}
	return "", ""
}

func kidName(n *inspect.Node) string {
	if n.Local == "" {
		return "#text"
	}
	return n.Name()
}

func contentKids(n *inspect.Node, sig bool) []*inspect.Node {
	var out []*inspect.Node
	for _, k := range n.Kids {
		if k.Local == "" && !sig && strings.TrimSpace(k.Text) == "" {
			continue
		}
		out = append(out, k)
	}
	return out
}

// TreeDiffAll returns every difference between two trees as
// (signature path, detail) pairs: attributes lost/added/changed, child elements
// lost/added (aligned by longest common subsequence over element names and,
// for text-bearing elements, their text), text changes. A lost or added
// subtree is reported once, at its root.
func TreeDiffAll(a, b *inspect.Node) [][2]string {
	var out [][2]string
	seen := map[string]bool{}
	treeDiffAll(a, b, "", &out, seen)
	return out
}

func alignKey(n *inspect.Node) string {
	if n.Local == "" {
		return "#text"
	}
	switch n.Local {
	case "p", "r", "tc", "tr", "t":
		return n.Name() + "\x00" + inspect.Hash(shapeAndText(n))
	}
	return n.Name()
}

// shapeAndText is what two elements must share to be lined up by the first alignment pass: the names of all
// descendant elements in document order and the character data that is content (everything inside text-bearing
// elements verbatim, elsewhere only non-blank data). Layout whitespace between elements takes no part: with it
// (the key used to be the raw inner text), a run that lost one child lined up with a neighbouring run that happened
// to have as many line breaks (Appendix B9).
func shapeAndText(n *inspect.Node) string {
	var b strings.Builder
	var rec func(x *inspect.Node, sig bool)
	rec = func(x *inspect.Node, sig bool) {
		if x.Local == "" {
			if sig || strings.TrimSpace(x.Text) != "" {
				b.WriteString(x.Text)
			}
			return
		}
		b.WriteByte('<')
		b.WriteString(x.Name())
		b.WriteByte('>')
		s := textSignificant(x)
		for _, k := range x.Kids {
			rec(k, s)
		}
	}
	if n != nil {
		for _, k := range n.Kids {
			rec(k, textSignificant(n))
		}
	}
	return b.String()
}

func treeDiffAll(a, b *inspect.Node, at string, out *[][2]string, seen map[string]bool) {
	add := func(sig, det string) {
		if !seen[sig] {
			seen[sig] = true
			*out = append(*out, [2]string{sig, det})
		}
	}
	an, bn := a.Name(), b.Name()
	if an != bn {
		add(at+"/"+an+":renamed", fmt.Sprintf("element %s vs %s under %s", an, bn, at))
		return
	}
	p := at + "/" + an
	aa, ba := attrsOf(a), attrsOf(b)
	for _, k := range sortedKeysS(aa) {
		v2, ok := ba[k]
		if !ok {
			add(p+"@"+k+":lost", fmt.Sprintf("%s: attribute %s=%q only in the first", p, k, clip(aa[k])))
		} else if v2 != aa[k] {
			add(p+"@"+k+":changed", fmt.Sprintf("%s: attribute %s is %q vs %q", p, k, clip(aa[k]), clip(v2)))
		}
	}
	for _, k := range sortedKeysS(ba) {
		if _, ok := aa[k]; !ok {
			add(p+"@"+k+":added", fmt.Sprintf("%s: attribute %s=%q only in the second", p, k, clip(ba[k])))
		}
	}
	if maskedText[an] {
		return
	}
	if setContainers[an] {
		if s, d := treeDiff(a, b, at); s != "" {
			add(s, d)
		}
		return
	}
	sig := textSignificant(a) || textSignificant(b)
	ka, kb := contentKids(a, sig), contentKids(b, sig)
	// LCS alignment; first try exact keys (name + text), fall back to names
	match := lcsAlign(ka, kb, alignKey)
	ia, ib := 0, 0
	emitLost := func(x *inspect.Node) {
		add(p+"/"+kidName(x)+":lost", fmt.Sprintf("%s: child %s only in the first: %s", p, kidName(x), clip(x.InnerText()+x.Text)))
	}
	emitAdded := func(x *inspect.Node) {
		add(p+"/"+kidName(x)+":added", fmt.Sprintf("%s: child %s only in the second: %s", p, kidName(x), clip(x.InnerText()+x.Text)))
	}
	flush := func(ea, eb int) {
		// unmatched stretches: pair up same-named elements in order (changed), the rest is lost/added
		ua, ub := ka[ia:ea], kb[ib:eb]
		used := make([]bool, len(ub))
		for _, x := range ua {
			paired := false
			for j, y := range ub {
				if !used[j] && kidName(x) == kidName(y) {
					used[j] = true
					paired = true
					if x.Local == "" {
						if x.Text != y.Text {
							add(p+":text", fmt.Sprintf("%s: text %q vs %q", p, clip(x.Text), clip(y.Text)))
						}
					} else {
						treeDiffAll(x, y, p, out, seen)
					}
					break
				}
			}
			if !paired {
				emitLost(x)
			}
		}
		for j, y := range ub {
			if !used[j] {
				emitAdded(y)
			}
		}
	}
	for _, m := range match {
		flush(m[0], m[1])
		x, y := ka[m[0]], kb[m[1]]
		if x.Local != "" {
			treeDiffAll(x, y, p, out, seen)
		}
		ia, ib = m[0]+1, m[1]+1
	}
	flush(len(ka), len(kb))
}

// lcsAlign returns index pairs of a longest common subsequence under key.
func lcsAlign(a, b []*inspect.Node, key func(*inspect.Node) string) [][2]int {
	n, m := len(a), len(b)
	if n == 0 || m == 0 {
		return nil
	}
	if n*m > 4_000_000 { // very long child lists: align positionally
		var out [][2]int
		for i := 0; i < n && i < m; i++ {
			if key(a[i]) == key(b[i]) {
				out = append(out, [2]int{i, i})
			}
		}
		return out
	}
	ka, kb := make([]string, n), make([]string, m)
	for i := range a {
		ka[i] = key(a[i])
	}
	for j := range b {
		kb[j] = key(b[j])
	}
	dp := make([][]int32, n+1)
	for i := range dp {
		dp[i] = make([]int32, m+1)
	}
	for i := n - 1; i >= 0; i-- {
		for j := m - 1; j >= 0; j-- {
			if ka[i] == kb[j] {
				dp[i][j] = dp[i+1][j+1] + 1
			} else if dp[i+1][j] >= dp[i][j+1] {
				dp[i][j] = dp[i+1][j]
			} else {
				dp[i][j] = dp[i][j+1]
			}
		}
	}
	var out [][2]int
	for i, j := 0, 0; i < n && j < m; {
		switch {
		case ka[i] == kb[j]:
			out = append(out, [2]int{i, j})
			i++
			j++
		case dp[i+1][j] >= dp[i][j+1]:
			i++
		default:
			j++
		}
	}
	return out
}
