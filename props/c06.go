package props

import (
	"archive/zip"
	"bytes"
	"compress/flate"
	"errors"
	"fmt"
	"hash/crc32"
	"io"
	"os"
	"regexp"
	"sort"
	"strings"
	"unicode/utf16"

	"github.com/zerx-lab/wordZero/pkg/document"
	"github.com/zerx-lab/wordZero/pkg/markdown"

	"verif/foreign"
	"verif/inspect"
	"verif/sim"
	"verif/simrt"
	"verif/world"
)

// C06 — opening never crashes or hangs (scope: what storage, producers and
// readers do to packages; DESIGN §5 C06).
type c06 struct{}

func init() { Register(c06{}) }

func (c06) ID() string     { return "C06" }
func (c06) Flavor() string { return "instr" }
func (c06) Runs(tier string) int {
	if tier == "thorough" {
		return 300000
	}
	return 8000
}

func (c06) Describe() Description {
	return Description{
		Rule: "one case = a valid package (built through the library API with all op families, or written by the independent foreign producer) damaged by 1-3 faults drawn from the " +
			"storage model (S-torn, S-zero sector, S-flip bit, S-dup/drop/swap 4KiB block, S-stale = previous version) and the faulty-producer model applied to one part inside a " +
			"well-formed container (P-cut, P-empty, P-missing, P-misnest, P-root incl. the ISO-strict namespace, P-place: table in run / properties without values / grid removed / " +
			"non-numeric and huge numbers, P-repeat and P-nest up to 10000, P-vocab: elements of the vocabulary in places and spellings the library does not write, P-selfclose: empty-element tags), opened through Open(path) or OpenFromMemory with a faulty reader (R-short, R-err(k), R-eof(k), R-zero, " +
			"R-closeerr). If a document is returned: accessor sweep (counts, texts, headings, page settings, properties, every table's declared cell range and iterator), editing " +
			"sweep (append, structural table edits on rectangular tables, cell edits, image, header, margins), then ToBytes. Oracle: no call panics; Open returns exactly one of " +
			"(document, nil) / (nil, error); with only R-short the outcome equals the unfaulted outcome; the regenerated main part of the re-save is well-formed; every case finishes " +
			"within the liveness bound (20 s per case, re-run alone before it is reported). Non-trivial = >= 1 fault actually applied (bytes or reads changed) and the damaged " +
			"input differs from the valid one; distinct = distinct event-log fingerprints (fault kinds and parameters, outcome).",
		Assumptions: []string{"scope: inputs reachable by the stated fault model from valid packages; arbitrary byte strings beyond that are byte-level fuzzing, a different technique",
			"decompression bombs / memory exhaustion are outside the statement"},
		RealVsStub: map[string]string{"real": "Open, OpenFromMemory, the whole reader, accessors, editing calls, ToBytes; archive/zip; the file system",
			"stub": "storage and producer faults are applied to the bytes by the simulator; the faulty reader is simulator code behind the io.ReadCloser seam"},
	}
}

func (c06) Nontrivial(c *sim.Case, st *sim.Stats) bool {
	n := int64(0)
	for _, k := range sim.SortedKeys(st.Faults) {
		n += st.Faults[k]
	}
	return n > 0 && st.Probes["input_damaged"] > 0
}

var c06storage = []string{"S-torn", "S-zero", "S-flip", "S-dup", "S-drop", "S-swap", "S-stale"}
var c06producer = []string{"P-cut", "P-empty", "P-missing", "P-misnest", "P-root", "P-place", "P-repeat", "P-nest", "P-vocab", "P-selfclose", "P-lex", "Z-names"}
var c06reader = []string{"R-short", "R-err", "R-eof", "R-zero", "R-closeerr"}

var c06lexParts = []string{"word/document.xml", "word/styles.xml", "[Content_Types].xml", "_rels/.rels", "word/_rels/document.xml.rels"}

// c06VocabCombos is the size of the space the enumeration lane walks through: element name x spelling x containing element.
var c06VocabCombos = len(c06vocab) * 4 * (len(c06childOf) + 1)

func (c06) Gen(r *sim.Rand, c *sim.Case, tier string) {
	var ops []sim.Op
	if c.Run%3 == 2 && c.Run < ColdBase {
		// enumeration lane: ONE element of the vocabulary, in one spelling, as a direct child of one kind of container, put into the main
		// part of an otherwise valid package. Consecutive cases walk through all combinations (the random lane meets each only about
		// once per quick run, whatever else was damaged in that case).
		combo := int((c.Run/3 + c.Seed*7919) % uint64(c06VocabCombos))
		name, spelling, cont := combo%len(c06vocab), combo/len(c06vocab)%4, combo/len(c06vocab)/4
		if r.Chance(0.4) {
			ops = append(ops, sim.Op{K: "foreign", I: []int{int(r.Uint64() >> 40), int(r.Uint64()) & foreign.FAllBits, 0}})
			c.Cfg["foreign"] = 1
		} else {
			g := world.NewGen(r.Fork())
			g.Extra = true
			g.Alpha = []int{0, 1, 4}
			g.Fam = world.FAll - 1
			g.HFOncePerKind, g.RectTablesOnly, g.WellFormedMath = true, true, true
			ops = g.DocOps(0, r.Range(4, 14))
			ops = append(ops, sim.Op{K: "pg.margins", F: []float64{20, 20, 20, 20}})
		}
		fault := sim.Op{K: "P-vocab1", I: []int{r.Intn(1000), name, spelling, cont}, S: []sim.Str{"word/document.xml"}}
		if (c.Run/3)%4 == 2 {
			// ... and another fourth walks the unusual archive directories: variant x sub-variant x victim selector
			zc := int((c.Run/12 + c.Seed*15485863) % uint64(14*4*6))
			fault = sim.Op{K: "Z-names", I: []int{zc / (14 * 4), zc / 14 % 4, zc % 14, []int{2, 10, 100, 1000}[r.Intn(4)]}, S: []sim.Str{"any"}}
			c.Cfg["zip_enum"] = 1
		}
		if (c.Run/3)%4 == 3 {
			// every fourth case of the lane walks the lexical faults instead: variant x part x sub-variant
			lc := int((c.Run/12 + c.Seed*104729) % uint64(16*len(c06lexParts)*4))
			fault = sim.Op{K: "P-lex", I: []int{r.Intn(1000), lc / (16 * len(c06lexParts)), lc % 16, []int{2, 10, 100, 1000}[r.Intn(4)]}, S: []sim.Str{sim.Str(c06lexParts[lc/16%len(c06lexParts)])}}
			c.Cfg["lex_enum"] = 1
		}
		ops = append(ops, sim.Op{K: "save"}, fault, sim.Op{K: "open", I: []int{r.Intn(2), 0}})
		c.Tasks = [][]sim.Op{ops}
		c.Order = orderPolicy(r)
		c.OrderSeed = r.Uint64()
		c.Cfg["sweep_seed"] = int(r.Uint64() >> 34)
		c.Cfg["vocab_enum"] = 1
		return
	}
	if r.Chance(0.35) {
		ops = append(ops, sim.Op{K: "foreign", I: []int{int(r.Uint64() >> 40), int(r.Uint64()) & foreign.FAllBits, 0}})
		c.Cfg["foreign"] = 1
	} else {
		g := world.NewGen(r.Fork())
		g.Extra = true
		g.Alpha = []int{0, 1, 4}
		g.Fam = 0
		for f := 1; f < world.FAll; f <<= 1 {
			if r.Chance(0.5) {
				g.Fam |= f
			}
		}
		g.Fam |= world.FBody | world.FTable
		g.HFOncePerKind, g.RectTablesOnly, g.WellFormedMath = true, true, true
		ops = g.DocOps(0, r.Range(2, 25))
		if r.Chance(0.4) { // a previous version exists (S-stale)
			k := r.Intn(len(ops) + 1)
			ops = append(append(append([]sim.Op{}, ops[:k]...), sim.Op{K: "save"}), ops[k:]...)
		}
	}
	ops = append(ops, sim.Op{K: "save"})
	// fault swarm: which kinds are enabled in this run
	var kinds []string
	for _, k := range append(append([]string{}, c06storage...), c06producer...) {
		if r.Chance(0.4) {
			kinds = append(kinds, k)
		}
	}
	if len(kinds) == 0 {
		kinds = []string{r.Pick(c06producer...)}
	}
	// a case is a HISTORY of opens in one process: 1 (usually) to 8 rounds, each damaging the valid package
	// afresh; what an earlier failed open leaves behind in the process must not affect a later one
	rounds := 1
	if r.Chance(0.3) {
		rounds = r.Range(2, 8)
	}
	for round := 0; round < rounds; round++ {
		if round > 0 {
			ops = append(ops, sim.Op{K: "reset"})
		}
		nf := r.Range(1, 3)
		if r.Chance(0.1) || (round == rounds-1 && rounds > 1 && r.Bool()) {
			nf = 0 // only a reader fault / the valid package itself
		}
		for i := 0; i < nf; i++ {
			k := kinds[r.Intn(len(kinds))]
			ops = append(ops, sim.Op{K: k, I: []int{r.Intn(1000), r.Intn(1000), r.Intn(18), []int{2, 10, 100, 1000, 10000}[r.Intn(5)]}, S: []sim.Str{sim.Str(c06pickPart(r))}})
		}
		if r.Chance(0.08) {
			ops = append(ops, sim.Op{K: "Z-size", I: []int{r.Intn(1000), r.Intn(4)}})
		}
		rd := sim.Op{K: "open", I: []int{r.Intn(2), r.Intn(1000)}} // I[0]: 0 memory, 1 file
		if rd.I[0] == 0 && r.Chance(0.5) {
			rd.S = []sim.Str{sim.Str(r.Pick(c06reader...))}
		}
		ops = append(ops, rd)
	}
	c.Tasks = [][]sim.Op{ops}
	c.Order = orderPolicy(r)
	c.OrderSeed = r.Uint64()
	c.Cfg["sweep_seed"] = int(r.Uint64() >> 34)
}

func c06pickPart(r *sim.Rand) string {
	switch r.Intn(12) {
	case 0:
		return "[Content_Types].xml"
	case 1:
		return "_rels/.rels"
	case 2:
		return "word/_rels/document.xml.rels"
	case 3:
		return "word/styles.xml"
	case 4:
		return "any"
	default:
		return "word/document.xml"
	}
}

// ---- fault application -----------------------------------------------------------

func rezip(names []string, parts map[string][]byte) []byte {
	var buf bytes.Buffer
	zw := zip.NewWriter(&buf)
	for _, n := range names {
		data, ok := parts[n]
		if !ok {
			continue
		}
		w, err := zw.Create(n)
		if err != nil {
			continue
		}
		_, _ = w.Write(data)
	}
	_ = zw.Close()
	return buf.Bytes()
}

// rezipLying writes the archive with one entry whose header declares
// uncompressed size `size` while its (correctly compressed) data is shorter.
func rezipLying(names []string, parts map[string][]byte, victim string, size uint64) []byte {
	var buf bytes.Buffer
	zw := zip.NewWriter(&buf)
	for _, n := range names {
		data, ok := parts[n]
		if !ok {
			continue
		}
		if n != victim {
			if w, err := zw.Create(n); err == nil {
				_, _ = w.Write(data)
			}
			continue
		}
		var comp bytes.Buffer
		fw, _ := flate.NewWriter(&comp, flate.DefaultCompression)
		_, _ = fw.Write(data)
		_ = fw.Close()
		h := &zip.FileHeader{Name: n, Method: zip.Deflate, CRC32: crc32.ChecksumIEEE(data), CompressedSize64: uint64(comp.Len()), UncompressedSize64: size}
		if w, err := zw.CreateRaw(h); err == nil {
			_, _ = w.Write(comp.Bytes())
		}
	}
	_ = zw.Close()
	return buf.Bytes()
}

var (
	reEndTag   = regexp.MustCompile(`</[A-Za-z0-9:]+>`)
	reValAttr  = regexp.MustCompile(` [A-Za-z0-9:]+="[^"]*"`)
	reNumAttr  = regexp.MustCompile(`="[0-9]+"`)
	reTbl      = regexp.MustCompile(`(?s)<([A-Za-z0-9]+:)?tbl>.*?</([A-Za-z0-9]+:)?tbl>`)
	reTblGrid  = regexp.MustCompile(`(?s)<([A-Za-z0-9]+:)?tblGrid>.*?</([A-Za-z0-9]+:)?tblGrid>|<([A-Za-z0-9]+:)?tblGrid/>`)
	rePara     = regexp.MustCompile(`(?s)<([A-Za-z0-9]+:)?p>.*?</([A-Za-z0-9]+:)?p>|<([A-Za-z0-9]+:)?p [^>]*>.*?</([A-Za-z0-9]+:)?p>`)
	reTcPr     = regexp.MustCompile(`(?s)<([A-Za-z0-9]+:)?tcPr>.*?</([A-Za-z0-9]+:)?tcPr>`)
	reRootOpen = regexp.MustCompile(`<([A-Za-z0-9]+:)?(document|Types|Relationships|styles)([ >])`)
)

var c06childOf = func() []*regexp.Regexp {
	var out []*regexp.Regexp
	for _, n := range []string{"body", "p", "r", "tbl", "tr", "tc", "pPr", "rPr", "tcPr", "tblPr", "sectPr"} {
		out = append(out, regexp.MustCompile(`<([A-Za-z0-9]+:)?`+n+`( [^<>]*[^/<>])?>`))
	}
	return out
}()

var (
	reAnyTag    = regexp.MustCompile(`</?[A-Za-z][A-Za-z0-9:]*[^<>]*>`)
	reEmptyPair = regexp.MustCompile(`<([A-Za-z][A-Za-z0-9:]*)((?: [^<>]*)?)></([A-Za-z][A-Za-z0-9:]*)>`)
	c06vocab    = []string{"m:oMath", "m:oMathPara", "w:sdt", "w:sdtContent", "w:hyperlink", "w:ins", "w:del", "w:smartTag", "w:fldSimple", "w:bookmarkStart", "w:bookmarkEnd",
		"w:proofErr", "w:commentRangeStart", "mc:AlternateContent", "w:pict", "w:object", "w:drawing", "wp:inline", "wp:anchor", "a:graphic", "a:graphicData", "pic:pic",
		"w:tbl", "w:tr", "w:tc", "w:p", "w:r", "w:t", "w:br", "w:tab", "w:sectPr", "w:pPr", "w:rPr", "w:numPr", "w:tblPr", "w:tblGrid", "w:gridCol", "w:tcPr", "w:trPr",
		"w:pBdr", "w:tabs", "w:sym", "w:fldChar", "w:instrText", "w:footnoteReference", "w:endnoteReference", "w:lastRenderedPageBreak", "w:pgSz", "w:pgMar",
		"w:headerReference", "w:footerReference", "w:docGrid", "w:body", "w:document", "MathParagraph"}
)

// producerFault damages one part's XML text.
func producerFault(kind string, data []byte, a, b, variant, n int) []byte {
	s := string(data)
	pos := func(x int) int { return len(s) * x / 1000 }
	pickMatch := func(re *regexp.Regexp, x int) []int {
		ms := re.FindAllStringIndex(s, -1)
		if len(ms) == 0 {
			return nil
		}
		return ms[x%len(ms)]
	}
	switch kind {
	case "P-cut":
		return []byte(s[:pos(a)])
	case "P-empty":
		if variant%2 == 0 {
			return []byte{}
		}
		return []byte(`<?xml version="1.0" encoding="UTF-8" standalone="yes"?>` + "\n")
	case "P-misnest":
		if m := pickMatch(reEndTag, a); m != nil {
			if variant%2 == 0 {
				return []byte(s[:m[0]] + s[m[1]:]) // drop an end tag
			}
			return []byte(s[:m[1]] + s[m[0]:]) // duplicate it
		}
	case "P-root":
		switch variant % 4 {
		case 0:
			return []byte(strings.Replace(s, "http://schemas.openxmlformats.org/wordprocessingml/2006/main", "http://purl.oclc.org/ooxml/wordprocessingml/main", -1))
		case 1:
			if m := reRootOpen.FindStringSubmatchIndex(s); m != nil {
				name := s[m[4]:m[5]]
				return []byte(strings.Replace(strings.Replace(s, name+s[m[6]:m[7]], "other"+s[m[6]:m[7]], 1), "/"+name+">", "/other>", -1))
			}
		case 2:
			return []byte(`<?xml version="1.0"?><html><body><p>not a document</p></body></html>`)
		default:
			return []byte(strings.Replace(s, "xmlns:w=", "xmlns:x=", 1)) // prefix left undeclared
		}
	case "P-place":
		switch variant % 9 {
		case 7: // a table without rows (only properties and grid), or an empty table element
			reTr := regexp.MustCompile(`(?s)<([A-Za-z0-9]+:)?tr[ >].*?</([A-Za-z0-9]+:)?tr>`)
			if b%2 == 0 && reTr.MatchString(s) {
				return []byte(reTr.ReplaceAllString(s, ""))
			}
			if m := pickMatch(rePara, a); m != nil {
				return []byte(s[:m[0]] + "<w:tbl/>" + s[m[0]:])
			}
		case 8: // rows wrapped in an element the reader does not know
			if m := pickMatch(reTbl, a); m != nil {
				t := s[m[0]:m[1]]
				t = strings.Replace(t, "<w:tr>", "<w:customXml><w:tr>", 1)
				if i := strings.LastIndex(t, "</w:tr>"); i >= 0 && strings.Contains(t, "<w:customXml>") {
					t = t[:i] + "</w:tr></w:customXml>" + t[i+len("</w:tr>"):]
				}
				return []byte(s[:m[0]] + t + s[m[1]:])
			}
		case 0: // a table inside a run
			if m := pickMatch(reTbl, a); m != nil {
				return []byte(s[:m[0]] + "<w:p><w:r>" + s[m[0]:m[1]] + "</w:r></w:p>" + s[m[1]:])
			}
		case 1: // properties without values
			if m := pickMatch(reValAttr, a); m != nil {
				return []byte(s[:m[0]] + s[m[1]:])
			}
		case 2: // grid definition removed
			return []byte(reTblGrid.ReplaceAllString(s, ""))
		case 3: // non-numeric number
			if m := pickMatch(reNumAttr, a); m != nil {
				return []byte(s[:m[0]] + `="abc"` + s[m[1]:])
			}
		case 4: // huge / negative number
			if m := pickMatch(reNumAttr, a); m != nil {
				return []byte(s[:m[0]] + []string{`="99999999999999999999999"`, `="-7"`, `="0"`, `="2147483648"`}[b%4] + s[m[1]:])
			}
		case 5: // cell properties removed
			return []byte(reTcPr.ReplaceAllString(s, ""))
		default: // a paragraph moved into an arbitrary place
			if m := pickMatch(rePara, a); m != nil && len(s) > 0 {
				p := s[m[0]:m[1]]
				rest := s[:m[0]] + s[m[1]:]
				ends := reEndTag.FindAllStringIndex(rest, -1)
				if len(ends) > 0 {
					at := ends[b%len(ends)][0]
					return []byte(rest[:at] + p + rest[at:])
				}
			}
		}
	case "P-vocab":
		// an element of the WordprocessingML / DrawingML / math vocabulary where the library did not put one, in one of the spellings
		// a producer may use: empty-element tag, start and end tag with nothing between, or with a run inside
		// (up to four elements per fault, at different places)
		for k := 0; k < 1+n%4; k++ {
			// where: before any tag at all, or - half of the time - as a direct child of one of the containers whose children the
			// reader tells apart (body, paragraph, run, table, row, cell, their property elements)
			re := reAnyTag
			if (b+k)%2 == 1 {
				re = c06childOf[(a/7+k)%len(c06childOf)]
			}
			m := pickMatch(re, a+k*37)
			if m == nil {
				m = pickMatch(reAnyTag, a+k*37)
			}
			if m == nil {
				break
			}
			if re != reAnyTag {
				m = []int{m[1], m[1]} // right after the container's start tag
			}
			name := c06vocab[(b+k*11)%len(c06vocab)]
			ins := "<" + name + "/>"
			switch (variant + k) % 4 {
			case 1:
				ins = "<" + name + "></" + name + ">"
			case 2:
				ins = "<" + name + "><w:r><w:t>v</w:t></w:r></" + name + ">"
			case 3:
				ins = "<" + name + " w:val=\"1\" w:id=\"7\" r:id=\"rId1\"/>"
			}
			s = s[:m[0]] + ins + s[m[0]:]
		}
		return []byte(s)
	case "P-vocab1": // enumeration lane: b = element, variant = spelling, n = container (0: before any tag)
		re := reAnyTag
		if n > 0 && n <= len(c06childOf) {
			re = c06childOf[n-1]
		}
		m := pickMatch(re, a)
		if m == nil {
			re = reAnyTag
			m = pickMatch(re, a)
		}
		if m == nil {
			return data
		}
		at := m[0]
		if re != reAnyTag {
			at = m[1]
		}
		name := c06vocab[b%len(c06vocab)]
		ins := "<" + name + "/>"
		switch variant % 4 {
		case 1:
			ins = "<" + name + "></" + name + ">"
		case 2:
			ins = "<" + name + "><w:r><w:t>v</w:t></w:r></" + name + ">"
		case 3:
			ins = "<" + name + " w:val=\"1\" w:id=\"7\" r:id=\"rId1\"/>"
		}
		return []byte(s[:at] + ins + s[at:])
	case "P-selfclose":
		// the empty-element spelling: <x a="b"></x> becomes <x a="b"/> everywhere (variant 0) or at one place - what every producer
		// but Go's encoder writes
		if variant%2 == 0 {
			return []byte(reEmptyPair.ReplaceAllString(s, "<$1$2/>"))
		}
		if m := pickMatch(reEmptyPair, a); m != nil {
			return []byte(s[:m[0]] + reEmptyPair.ReplaceAllString(s[m[0]:m[1]], "<$1$2/>") + s[m[1]:])
		}
	case "P-lex":
		// the same (or nearly the same) information in another lexical form a producer may choose, and lexical irregularities:
		// the reader must cope with each or refuse it
		decl := regexp.MustCompile(`^<\?xml[^>]*\?>\s*`)
		body := decl.ReplaceAllString(s, "")
		reText := regexp.MustCompile(`>([^<>&]+)</([A-Za-z0-9]+:)?t>`)
		switch variant % 16 {
		case 0: // UTF-8 byte order mark
			return append([]byte{0xEF, 0xBB, 0xBF}, data...)
		case 1: // UTF-16 little endian with BOM and a matching declaration
			u := utf16.Encode([]rune(`<?xml version="1.0" encoding="UTF-16"?>` + body))
			out := []byte{0xFF, 0xFE}
			for _, c := range u {
				out = append(out, byte(c), byte(c>>8))
			}
			return out
		case 2: // a declaration that names an encoding the bytes are not in
			return []byte(`<?xml version="1.0" encoding="` + []string{"UTF-16", "ISO-8859-1", "windows-1252", "x-unknown"}[b%4] + `"?>` + body)
		case 3: // text in a CDATA section
			if m := reText.FindAllStringSubmatchIndex(s, -1); len(m) > 0 {
				x := m[a%len(m)]
				return []byte(s[:x[2]] + "<![CDATA[" + s[x[2]:x[3]] + "]]>" + s[x[3]:])
			}
		case 4: // comments and processing instructions between and inside elements
			if m := pickMatch(reAnyTag, a); m != nil {
				return []byte(s[:m[1]] + []string{"<!-- c -->", "<?pi data?>", "<!---->", "<!-- <w:p> -->"}[b%4] + s[m[1]:])
			}
		case 5: // character references, legal and not
			if m := reText.FindAllStringSubmatchIndex(s, -1); len(m) > 0 {
				x := m[a%len(m)]
				return []byte(s[:x[2]] + []string{"&#65;", "&#x4e2d;", "&#0;", "&#x1F;", "&#xFFFF;", "&#x110000;", "&#99999999999;", "&#xD800;"}[b%8] + s[x[2]:])
			}
		case 6: // an entity nobody declared / a predefined one
			if m := reText.FindAllStringSubmatchIndex(s, -1); len(m) > 0 {
				x := m[a%len(m)]
				return []byte(s[:x[2]] + []string{"&nbsp;", "&amp;", "&lt;&gt;", "&", "&#;", "&quot;&apos;"}[b%6] + s[x[2]:])
			}
		case 7: // document type declaration with an internal entity, used in text
			if m := reText.FindAllStringSubmatchIndex(body, -1); len(m) > 0 {
				x := m[a%len(m)]
				return []byte(`<?xml version="1.0"?><!DOCTYPE d [<!ENTITY e "` + strings.Repeat("entity ", 1+n%50) + `">]>` + body[:x[2]] + "&e;" + body[x[2]:])
			}
		case 8: // single-quoted attribute values and white space inside tags
			if m := pickMatch(reValAttr, a); m != nil {
				at := s[m[0]:m[1]]
				at = strings.Replace(strings.Replace(at, `="`, " =\n '", 1), `"`, "'", 1)
				return []byte(s[:m[0]] + at + s[m[1]:])
			}
		case 9: // the same attribute twice
			if m := pickMatch(reValAttr, a); m != nil {
				return []byte(s[:m[1]] + s[m[0]:m[1]] + s[m[1]:])
			}
		case 10: // an attribute value of extreme length
			if m := pickMatch(reValAttr, a); m != nil {
				at := s[m[0]:m[1]]
				if i := strings.Index(at, `"`); i >= 0 {
					return []byte(s[:m[0]] + at[:i+1] + strings.Repeat("9", n*10) + at[i+1:] + s[m[1]:])
				}
			}
		case 11: // text of extreme length in one run, or a run with very many text elements
			if m := reText.FindAllStringSubmatchIndex(s, -1); len(m) > 0 {
				x := m[a%len(m)]
				if b%2 == 0 {
					return []byte(s[:x[2]] + strings.Repeat("long text ", n*10) + s[x[2]:])
				}
				return []byte(s[:x[3]] + strings.Repeat("</w:t><w:t>x", n) + s[x[3]:])
			}
		case 12: // the prefix bound to the main namespace is re-bound on an inner element
			if m := pickMatch(rePara, a); m != nil {
				return []byte(s[:m[0]] + `<w:p xmlns:w="urn:other">` + s[m[0]:m[1]] + `</w:p>` + s[m[1]:])
			}
		case 13: // elements of the main namespace through a second prefix, or the default namespace
			if m := pickMatch(rePara, a); m != nil {
				q := "v:"
				decl := ` xmlns:v="http://schemas.openxmlformats.org/wordprocessingml/2006/main"`
				if b%2 == 1 {
					q, decl = "", ` xmlns="http://schemas.openxmlformats.org/wordprocessingml/2006/main"`
				}
				return []byte(s[:m[0]] + "<" + q + "p" + decl + "><" + q + "r><" + q + "t>second prefix</" + q + "t></" + q + "r></" + q + "p>" + s[m[0]:])
			}
		case 14: // content after the root element / two roots
			return []byte(s + []string{"<!-- trailing -->", "trailing text", "<w:document/>", "\x00\x00", "<?pi?>"}[b%5])
		default: // line breaks and tabs in every form inside text and between elements
			if m := reText.FindAllStringSubmatchIndex(s, -1); len(m) > 0 {
				x := m[a%len(m)]
				return []byte(s[:x[2]] + []string{"\r\n", "\r", "\t\t", "&#13;&#10;", "\u0085", "\u2028"}[b%6] + s[x[2]:])
			}
		}
	case "P-repeat":
		if m := pickMatch(rePara, a); m != nil {
			if n > 10000 {
				n = 10000
			}
			return []byte(s[:m[1]] + strings.Repeat(s[m[0]:m[1]], n) + s[m[1]:])
		}
	case "P-nest":
		if n > 10000 {
			n = 10000
		}
		// extreme nesting: tables inside cells, or unknown elements
		open, cls := "<w:tbl><w:tr><w:tc>", "</w:tc></w:tr></w:tbl>"
		if variant%2 == 1 {
			open, cls = "<w:x>", "</w:x>"
		}
		if m := pickMatch(rePara, a); m != nil {
			return []byte(s[:m[0]] + strings.Repeat(open, n) + s[m[0]:m[1]] + strings.Repeat(cls, n) + s[m[1]:])
		}
	}
	return data
}

// containerFault rewrites the archive so that its directory is unusual but structurally valid: what other ZIP writers, or a
// careless one, produce around the same parts.
func containerFault(pkg *inspect.Package, a, b, variant, n int) []byte {
	names := append([]string{}, pkg.Names...)
	if len(names) == 0 {
		return nil
	}
	victim := names[a%len(names)]
	if b%3 != 0 {
		for _, v := range []string{"word/document.xml", "[Content_Types].xml", "_rels/.rels", "word/_rels/document.xml.rels", "word/styles.xml"} {
			if _, ok := pkg.Parts[v]; ok && (a+len(v))%3 == 0 {
				victim = v
			}
		}
	}
	var buf bytes.Buffer
	zw := zip.NewWriter(&buf)
	put := func(name string, data []byte, method uint16) {
		w, err := zw.CreateHeader(&zip.FileHeader{Name: name, Method: method})
		if err == nil {
			_, _ = w.Write(data)
		}
	}
	all := func(rename func(string) string, method uint16) {
		for _, nm := range names {
			put(rename(nm), pkg.Parts[nm], method)
		}
	}
	id := func(x string) string { return x }
	switch variant % 14 {
	case 0: // the same name twice, different content (first or second wins?)
		for _, nm := range names {
			if nm == victim {
				if b%2 == 0 {
					put(nm, []byte("<?xml version=\"1.0\"?><x/>"), zip.Deflate)
				} else {
					put(nm, nil, zip.Deflate)
				}
			}
			put(nm, pkg.Parts[nm], zip.Deflate)
			if nm == victim && b%4 >= 2 {
				put(nm, pkg.Parts[nm][:len(pkg.Parts[nm])/2], zip.Deflate)
			}
		}
	case 1: // another letter case for one name
		all(func(x string) string {
			if x == victim {
				if b%2 == 0 {
					return strings.ToUpper(x)
				}
				return strings.Title(x)
			}
			return x
		}, zip.Deflate)
	case 2: // backslashes as separators
		all(func(x string) string { return strings.ReplaceAll(x, "/", "\\") }, zip.Deflate)
	case 3: // leading slash, or ./
		all(func(x string) string { return []string{"/", "./", "//"}[b%3] + x }, zip.Deflate)
	case 4: // explicit directory entries, before or after their content
		if b%2 == 0 {
			put("word/", nil, zip.Store)
			put("_rels/", nil, zip.Store)
		}
		all(id, zip.Deflate)
		if b%2 == 1 {
			put("word/", nil, zip.Store)
			put("word/media/", nil, zip.Store)
		}
	case 5: // a directory where a part is expected
		for _, nm := range names {
			if nm == victim {
				put(nm+"/", nil, zip.Store)
				if b%2 == 0 {
					put(nm+"/inner.xml", pkg.Parts[nm], zip.Deflate)
				}
				continue
			}
			put(nm, pkg.Parts[nm], zip.Deflate)
		}
	case 6: // everything stored, not deflated
		all(id, zip.Store)
	case 7: // the content-types part and the package relationships last
		for _, nm := range names {
			if nm != "[Content_Types].xml" && nm != "_rels/.rels" {
				put(nm, pkg.Parts[nm], zip.Deflate)
			}
		}
		put("_rels/.rels", pkg.Parts["_rels/.rels"], zip.Deflate)
		put("[Content_Types].xml", pkg.Parts["[Content_Types].xml"], zip.Deflate)
	case 8: // an archive comment
		all(id, zip.Deflate)
		_ = zw.SetComment(strings.Repeat("comment PK\x05\x06 ", 1+n%100))
	case 9: // parts nobody declared: very long name, empty name, odd names
		all(id, zip.Deflate)
		put(strings.Repeat("d/", 200)+"x.xml", []byte("<x/>"), zip.Deflate)
		put("", []byte("nameless"), zip.Store)
		put("word/../evil.xml", []byte("<x/>"), zip.Deflate)
		put("word/document.xml.bak", pkg.Parts["word/document.xml"], zip.Deflate)
		put("[Content_Types].xml.rels", []byte("<x/>"), zip.Deflate)
	case 10: // an entry with a compression method nobody implements
		all(id, zip.Deflate)
		if w, err := zw.CreateRaw(&zip.FileHeader{Name: "word/odd.bin", Method: 99, CompressedSize64: 4, UncompressedSize64: 4}); err == nil {
			_, _ = w.Write([]byte("abcd"))
		}
	case 11: // the victim claims a compression method nobody implements / is marked encrypted
		for _, nm := range names {
			if nm != victim {
				put(nm, pkg.Parts[nm], zip.Deflate)
				continue
			}
			h := &zip.FileHeader{Name: nm, Method: []uint16{12, 14, 93, 99}[b%4], CRC32: crc32.ChecksumIEEE(pkg.Parts[nm]), CompressedSize64: uint64(len(pkg.Parts[nm])), UncompressedSize64: uint64(len(pkg.Parts[nm]))}
			if b%5 == 4 {
				h.Method, h.Flags = zip.Store, 0x1
			}
			if w, err := zw.CreateRaw(h); err == nil {
				_, _ = w.Write(pkg.Parts[nm])
			}
		}
	case 12: // a wrong checksum in the directory for one stored entry
		for _, nm := range names {
			if nm != victim {
				put(nm, pkg.Parts[nm], zip.Deflate)
				continue
			}
			h := &zip.FileHeader{Name: nm, Method: zip.Store, CRC32: crc32.ChecksumIEEE(pkg.Parts[nm]) ^ 1, CompressedSize64: uint64(len(pkg.Parts[nm])), UncompressedSize64: uint64(len(pkg.Parts[nm]))}
			if w, err := zw.CreateRaw(h); err == nil {
				_, _ = w.Write(pkg.Parts[nm])
			}
		}
	default: // junk in front of the archive (self-extractor stub): offsets in the directory are then relative
		all(id, zip.Deflate)
		_ = zw.Close()
		return append([]byte(strings.Repeat("MZ stub ", 1+n%500)), buf.Bytes()...)
	}
	_ = zw.Close()
	return buf.Bytes()
}

type faultyReader struct {
	b        []byte
	kind     string
	k        int
	rng      *sim.Rand
	zeros    int
	fired    *int64
	closeErr bool
}

var errInjected = errors.New("injected read error")

func (f *faultyReader) Read(p []byte) (int, error) {
	switch f.kind {
	case "R-zero":
		if f.zeros < 50 && f.rng.Intn(3) == 0 {
			f.zeros++
			*f.fired++
			return 0, nil
		}
	case "R-err":
		if f.k <= 0 {
			*f.fired++
			return 0, errInjected
		}
	case "R-eof":
		if f.k <= 0 {
			*f.fired++
			return 0, io.EOF
		}
	}
	if len(f.b) == 0 {
		return 0, io.EOF
	}
	n := len(p)
	if f.kind == "R-short" || f.kind == "R-zero" {
		n = 1 + f.rng.Intn(2048)
		*f.fired++
	}
	if (f.kind == "R-err" || f.kind == "R-eof") && n > f.k {
		n = f.k
	}
	if n > len(p) {
		n = len(p)
	}
	if n > len(f.b) {
		n = len(f.b)
	}
	copy(p, f.b[:n])
	f.b = f.b[n:]
	f.k -= n
	return n, nil
}

func (f *faultyReader) Close() error {
	if f.closeErr {
		*f.fired++
		return errInjected
	}
	return nil
}

// ---- sweeps -----------------------------------------------------------------------

func rectangular(t *document.Table) bool {
	if t == nil || t.Grid == nil || len(t.Rows) == 0 {
		return false
	}
	n := len(t.Rows[0].Cells)
	if n == 0 || n != len(t.Grid.Cols) {
		return false
	}
	for _, r := range t.Rows {
		if len(r.Cells) != n {
			return false
		}
		for _, c := range r.Cells {
			if c.Properties != nil && (c.Properties.GridSpan != nil || c.Properties.VMerge != nil) {
				return false
			}
		}
	}
	return true
}

func c06sweep(d *document.Document, r *sim.Rand, st *sim.Stats) {
	// ---- reading
	_ = world.Observe(d, true)
	tables := d.Body.GetTables()
	for ti, t := range tables {
		if ti >= 4 {
			break
		}
		rows, cols := t.GetRowCount(), t.GetColumnCount()
		for i := 0; i < rows && i < 12; i++ {
			for j := 0; j < cols && j < 12; j++ {
				_, _ = t.GetCellText(i, j)
				_, _ = t.GetCell(i, j)
				_, _ = t.IsCellMerged(i, j)
			}
		}
		it := t.NewCellIterator()
		for k := 0; it.HasNext() && k < 400; k++ {
			_, _ = it.Next()
		}
		_ = t.ForEach(func(row, col int, cell *document.TableCell, text string) error { return nil })
		if rows > 0 && cols > 0 {
			_, _ = t.GetCellRange(0, 0, rows-1, cols-1)
		}
		_, _ = t.FindCellsByText("x", false)
		if cp := t.CopyTable(); cp != nil {
			_ = cp.GetRowCount()
		}
	}
	// readers of the whole document: the Markdown exporter, and the template engine taking the document as a template
	if r.Chance(0.5) {
		_, _ = markdown.NewExporter(markdown.DefaultExportOptions()).ExportToString(d, nil)
		st.Probe("exported_to_markdown")
	}
	if r.Chance(0.5) {
		eng := document.NewTemplateEngine()
		if _, err := eng.LoadTemplateFromDocument("opened", d); err == nil {
			data := document.NewTemplateData()
			data.SetVariable("name", "value")
			data.SetList("items", []interface{}{map[string]interface{}{"name": "a"}, map[string]interface{}{"name": "b"}})
			if rd, err := eng.RenderTemplateToDocument("opened", data); err == nil && rd != nil {
				_, _ = rd.ToBytes()
				st.Probe("rendered_as_template")
			}
		}
	}
	st.Probe("accessor_sweeps")
	// ---- editing
	d.AddParagraph("appended after open")
	for ti, t := range tables {
		if ti >= 3 {
			break
		}
		rows, cols := t.GetRowCount(), t.GetColumnCount()
		rr, cc := r.Intn(rows+2)-1, r.Intn(cols+2)-1
		_ = t.SetCellText(rr, cc, "edited")
		_, _ = t.AddCellParagraph(rr, cc, "p")
		_ = t.SetCellFormat(rr, cc, &document.CellFormat{BackgroundColor: "EEEEEE"})
		if rectangular(t) { // structural edits on ragged / merged tables are C09's listed findings
			_ = t.InsertRow(rr, []string{"a"})
			_ = t.AppendRow([]string{"z"})
			_ = t.InsertColumn(cc, []string{"c"}, 1000)
			_ = t.DeleteColumn(cc)
			_ = t.DeleteRow(rr)
			st.Probe("structural_edits_on_opened_table")
		} else {
			st.Probe("table_not_rectangular")
			if t.Grid == nil {
				st.Probe("table_without_grid")
				// still legal to ask: must not panic
				_ = t.AppendRow([]string{"z"})
				_ = t.InsertColumn(0, []string{"c"}, 1000)
				_ = t.DeleteColumn(0)
			}
		}
		if rectangular(t) && t.GetColumnCount() >= 2 && t.GetRowCount() >= 2 {
			_ = t.MergeCellsHorizontal(0, 0, 1)
			_ = t.MergeCellsVertical(0, 1, 0)
		}
	}
	img := world.MakeImage("png", 4, 4, 99)
	_, _ = d.AddImageFromData(img, "after-open.png", document.ImageFormatPNG, 4, 4, nil)
	_ = d.AddHeader(document.HeaderFooterTypeEven, "header after open")
	_ = d.SetPageMargins(20, 20, 20, 20)
	_ = d.GetPageSettings()
	// ---- a short PRNG-chosen history of further edits and reads, as a program does to a document it has opened
	// (state the reader derived from positions in the file must survive removals and insertions)
	menu := []func(){
		func() { d.RemoveParagraphAt(r.Intn(4)) },
		func() {
			if ps := d.Body.GetParagraphs(); len(ps) > 0 {
				d.RemoveParagraph(ps[r.Intn(len(ps))])
			}
		},
		func() { d.RemoveElementAt(r.Intn(5)) },
		func() { d.AddParagraph("more text") },
		func() { d.AddHeadingParagraph("heading after open", 1+r.Intn(3)) },
		func() { _ = d.SetPageMargins(10+float64(r.Intn(20)), 20, 20, 20) },
		func() { _ = d.GetPageSettings() },
		func() { _ = d.SetPageOrientation(document.OrientationLandscape) },
		func() { _ = d.SetPageSize(document.PageSizeA4) },
		func() { d.AddListItem("item after open", nil) },
		func() { _ = d.AddFootnote("noted", "footnote after open") },
		func() { _ = d.AddFooter(document.HeaderFooterTypeDefault, "footer after open") },
		func() { _ = d.AutoGenerateTOC(document.DefaultTOCConfig()) },
		func() { _ = d.GenerateTOC(document.DefaultTOCConfig()) },
		func() { _ = d.UpdateTOC() },
		func() { d.AddPageBreak() },
		func() { _, _ = d.AddTable(&document.TableConfig{Rows: 2, Cols: 2, Width: 4000}) },
		func() { _ = d.ListHeadings(); _ = d.GetHeadingCount() },
		func() { _, _ = d.GetDocumentProperties(); _ = d.SetTitle("title after open") },
		func() { _, _ = d.ToBytes() },
	}
	for k, n := 0, 3+r.Intn(7); k < n; k++ {
		menu[r.Intn(len(menu))]()
	}
	st.Probe("editing_sweeps")
}

func (p c06) Exec(c *sim.Case, env *Env) []sim.Violation {
	document.VerifResetProcessState()
	simrt.InstallOrder(c.Order, c.OrderSeed, 0, nil)
	defer simrt.Uninstall()
	dir := env.MkTmp("c06")
	defer os.RemoveAll(dir)
	w := world.New(env.Stats, env.Log, dir)
	var saves [][]byte
	var cur []byte
	var viol []sim.Violation
	fail := func(clause, sig, detail string) []sim.Violation {
		return append(viol, sim.Violation{Clause: clause, Sig: sig, Detail: detail})
	}
	for _, op := range c.Tasks[0] {
		switch {
		case op.K == "save":
			o := w.Apply(op)
			if o.Bytes != nil {
				saves = append(saves, o.Bytes)
				cur = o.Bytes
			}
		case strings.HasPrefix(op.K, "S-"), strings.HasPrefix(op.K, "P-"), strings.HasPrefix(op.K, "Z-"):
			if cur == nil {
				if ds := w.Doc(0); ds.Base != nil { // foreign package
					cur = ds.Base
					if len(saves) == 0 {
						saves = append(saves, cur)
					}
				} else if len(saves) > 0 {
					cur = saves[len(saves)-1]
				} else {
					continue
				}
			}
			next := applyFault(op, cur, saves, env.Stats)
			if !bytes.Equal(next, cur) {
				env.Stats.Probe("input_damaged")
			}
			env.Log.Event("fault %s %v %s -> %s", op.K, op.I, op.Str(0), sim.Digest(next))
			cur = next
		case op.K == "reset": // next round: start again from the valid package
			cur = nil
			if len(saves) > 0 {
				cur = saves[len(saves)-1]
			}
			env.Stats.Probe("open_rounds")
		case op.K == "open":
			if cur == nil {
				if ds := w.Doc(0); ds.Base != nil {
					cur = ds.Base
				} else if len(saves) > 0 {
					cur = saves[len(saves)-1]
				} else {
					return nil
				}
			}
			if vs := p.openAndSweep(c, env, w, op, cur, fail); len(vs) > 0 {
				return vs
			}
		default:
			w.Apply(op)
			if w.Doc(0).Dead {
				return nil // building the valid package failed: some other property's business
			}
		}
	}
	return viol
}

func applyFault(op sim.Op, cur []byte, saves [][]byte, st *sim.Stats) []byte {
	a, b, variant, n := op.Int(0), op.Int(1), op.Int(2), op.Int(3)
	L := len(cur)
	at := func(x int) int {
		if L == 0 {
			return 0
		}
		return L * x / 1000
	}
	out := append([]byte{}, cur...)
	switch op.K {
	case "S-torn":
		k := at(a)
		if variant%3 == 0 && L > 22 { // bias: inside the central directory / end record
			k = L - 1 - b%minInt(L-1, 200)
		}
		st.Fault(op.K)
		return out[:k]
	case "S-zero":
		s := at(a) / 512 * 512
		for i := s; i < s+512 && i < L; i++ {
			out[i] = 0
		}
		st.Fault(op.K)
		return out
	case "S-flip":
		if L > 0 {
			out[at(a)%L] ^= 1 << uint(b%8)
			st.Fault(op.K)
		}
		return out
	case "S-dup", "S-drop", "S-swap":
		nb := (L + 4095) / 4096
		if nb == 0 {
			return out
		}
		i, j := a%nb, b%nb
		blk := func(k int) []byte {
			e := (k + 1) * 4096
			if e > L {
				e = L
			}
			return cur[k*4096 : e]
		}
		st.Fault(op.K)
		switch op.K {
		case "S-dup":
			return append(append(append([]byte{}, cur[:(i+1)*4096%(L+1)]...), blk(i)...), cur[minInt((i+1)*4096, L):]...)
		case "S-drop":
			return append(append([]byte{}, cur[:i*4096]...), cur[minInt((i+1)*4096, L):]...)
		default:
			if i == j || len(blk(i)) != len(blk(j)) {
				return out
			}
			copy(out[i*4096:], blk(j))
			copy(out[j*4096:], blk(i))
			return out
		}
	case "S-stale":
		if len(saves) >= 2 {
			st.Fault(op.K)
			return append([]byte{}, saves[len(saves)-2]...)
		}
		return out
	}
	// producer faults: need a readable container
	pkg, err := inspect.ReadZip(cur)
	if err != nil {
		return out
	}
	if op.K == "Z-size" {
		// a structurally valid archive whose directory declares a size the data does not have
		names := append([]string{}, pkg.Names...)
		if len(names) == 0 {
			return out
		}
		victim := names[a%len(names)]
		size := []uint64{1 << 62, 1 << 63, 0xFFFFFFFE, uint64(len(pkg.Parts[victim])) + 1}[b%4]
		if size == 0xFFFFFFFE {
			size = uint64(len(pkg.Parts[victim])) * 3 // a 32-bit lie of moderate size (a multi-gigabyte one would test the machine, not the library)
		}
		st.Fault(op.K)
		return rezipLying(names, pkg.Parts, victim, size)
	}
	if op.K == "Z-names" {
		if out2 := containerFault(pkg, a, b, variant, n); out2 != nil {
			st.Fault(op.K)
			return out2
		}
		return out
	}
	part := op.Str(0)
	if _, ok := pkg.Parts[part]; !ok || part == "any" {
		xs := []string{}
		for _, n := range pkg.SortedNames() {
			if strings.HasSuffix(n, ".xml") || strings.HasSuffix(n, ".rels") {
				xs = append(xs, n)
			}
		}
		if len(xs) == 0 {
			return out
		}
		part = xs[a%len(xs)]
	}
	names := append([]string{}, pkg.Names...)
	if op.K == "P-missing" {
		delete(pkg.Parts, part)
		st.Fault(op.K)
		return rezip(names, pkg.Parts)
	}
	nd := producerFault(op.K, pkg.Parts[part], a, b, variant, n)
	if !bytes.Equal(nd, pkg.Parts[part]) {
		st.Fault(op.K)
	}
	pkg.Parts[part] = nd
	return rezip(names, pkg.Parts)
}

func (c06) openAndSweep(c *sim.Case, env *Env, w *world.World, op sim.Op, data []byte, fail func(clause, sig, detail string) []sim.Violation) []sim.Violation {
	open := func(kind string, k int) (d *document.Document, err error, sig string, pn bool) {
		var fired int64
		sig, pn = Guard(func() {
			if op.Int(0) == 1 {
				p := w.Tmp + "/in.docx"
				_ = os.WriteFile(p, data, 0o644)
				d, err = document.Open(p)
				return
			}
			if kind == "" {
				d, err = document.OpenFromMemory(io.NopCloser(bytes.NewReader(data)))
				return
			}
			fr := &faultyReader{b: data, kind: kind, k: k, rng: sim.NewRand(uint64(c.C("sweep_seed"))), fired: &fired, closeErr: kind == "R-closeerr"}
			d, err = document.OpenFromMemory(fr)
		})
		if fired > 0 {
			env.Stats.Faults[kind] += fired
		}
		return
	}
	kind := op.Str(0)
	k := 0
	if len(data) > 0 {
		k = len(data) * op.Int(1) / 1000
	}
	d, err, sig, pn := open(kind, k)
	env.Stats.Probe("opens")
	if pn {
		return fail("panic", sig, "Open panicked on a damaged package")
	}
	if (d == nil) == (err == nil) {
		return fail("open-contract", fmt.Sprintf("doc-nil=%v,err-nil=%v", d == nil, err == nil), "Open must return exactly one of (document, nil) / (nil, error)")
	}
	outcome := "error"
	if err == nil {
		outcome = "opened"
		env.Stats.Probe("opened_damaged_ok")
	} else {
		env.Stats.Probe("open_rejected")
	}
	env.Log.Event("open via=%d reader=%s -> %s", op.Int(0), kind, outcome)
	// a legal short-read pattern must not change the outcome
	var ref *document.Document
	if kind == "R-short" || kind == "R-zero" {
		d0, err0, sig0, pn0 := open("", 0)
		if pn0 {
			return fail("panic", sig0, "Open panicked on a damaged package")
		}
		if (err0 == nil) != (err == nil) {
			return fail("short-read-differs", "outcome", fmt.Sprintf("with whole reads Open gives err=%v, with short reads err=%v", err0, err))
		}
		ref = d0
	}
	if d == nil {
		return nil
	}
	if d.Body == nil {
		return fail("nil-body", "opened-document-without-body", "Open returned a document whose Body is nil")
	}
	if ref != nil {
		var b1, b2 []byte
		if sig, pn := Guard(func() { b1, _ = d.ToBytes(); b2, _ = ref.ToBytes() }); pn {
			return fail("panic", sig, "ToBytes panicked after Open")
		}
		c1, e1 := CanonPackage(b1)
		c2, e2 := CanonPackage(b2)
		if e1 == nil && e2 == nil {
			if sg, det := PkgDiff(c2, c1); sg != "" {
				return fail("short-read-differs", sg, "whole reads vs short reads: "+det)
			}
		}
	}
	r := sim.NewRand(uint64(c.C("sweep_seed")) ^ 0x77)
	if sig, pn := Guard(func() { c06sweep(d, r, env.Stats) }); pn {
		return fail("panic", sig, "an accessor or editing call panicked on a document that Open returned for a damaged package")
	}
	var out []byte
	var serr error
	if sig, pn := Guard(func() { out, serr = d.ToBytes() }); pn {
		return fail("panic", sig, "ToBytes panicked on an opened and edited document")
	}
	if serr != nil {
		env.Stats.Probe("resave_error")
		return nil
	}
	pkg, zerr := inspect.ReadZip(out)
	if zerr != nil {
		return fail("resave", "unreadable-zip", zerr.Error())
	}
	if mp, ok := pkg.Parts["word/document.xml"]; ok {
		if _, perr := inspect.ParseXML(mp); perr != nil {
			return fail("resave", "main-part:"+xmlErrClass(perr), "the regenerated main part is not well-formed: "+perr.Error())
		}
	} else {
		return fail("resave", "main-part-missing", "the re-saved package has no word/document.xml")
	}
	env.Stats.Probe("resaved_ok")
	return nil
}

func (c06) Witnesses() []*sim.Case {
	mk := func(note string, ops ...sim.Op) *sim.Case {
		base := []sim.Op{{K: "para", S: []sim.Str{"hello"}}, {K: "t.new", I: []int{2, 2, 5000, 0, 0}}, {K: "save"}}
		return &sim.Case{Prop: "C06", Lane: "B", Note: note, Order: "sorted", Cfg: map[string]int{"sweep_seed": 3}, Tasks: [][]sim.Op{append(base, ops...)}}
	}
	open := sim.Op{K: "open", I: []int{0, 0}}
	openf := sim.Op{K: "open", I: []int{1, 0}}
	f := func(k string, variant int, part string) sim.Op {
		return sim.Op{K: k, I: []int{0, 0, variant, 10}, S: []sim.Str{sim.Str(part)}}
	}
	return []*sim.Case{
		mk("nil-body: empty main part", f("P-empty", 0, "word/document.xml"), open),
		mk("nil-body: main part is only an XML declaration", f("P-empty", 1, "word/document.xml"), openf),
		mk("nil-body: ISO-strict namespace", f("P-root", 0, "word/document.xml"), open),
		mk("nil-body: other root element", f("P-root", 1, "word/document.xml"), open),
		mk("nil-body: html instead of a document", f("P-root", 2, "word/document.xml"), openf),
		mk("table-without-grid: column edit", f("P-place", 2, "word/document.xml"), open),
	}
}

var _ = sort.Strings
