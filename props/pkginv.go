package props

import (
	"fmt"
	"path"
	"regexp"
	"sort"
	"strings"

	"verif/inspect"
	"verif/sim"
)

var digits = regexp.MustCompile(`[0-9]+`)
var numericID = regexp.MustCompile(`^[0-9]+$`)
var tableTemplate = regexp.MustCompile(`^Table(Normal|Grid|List|Colorful|Columns|Rows|Plain)[0-9]*$`)

// normPart makes a part name input-independent: digits -> N.
func normPart(n string) string { return digits.ReplaceAllString(n, "N") }

func shortType(t string) string {
	if i := strings.LastIndex(t, "/"); i >= 0 {
		return t[i+1:]
	}
	return t
}

func v(clause, sig, detail string) sim.Violation {
	return sim.Violation{Clause: clause, Sig: sig, Detail: detail}
}

// xmlErrClass maps a parse error to a stable class.
func xmlErrClass(err error) string {
	s := err.Error()
	switch {
	case strings.Contains(s, "illegal character code"), strings.Contains(s, "not allowed in XML"):
		return "illegal-char"
	case strings.Contains(s, "not valid UTF-8"), strings.Contains(s, "invalid UTF-8"):
		return "invalid-utf8"
	case strings.Contains(s, "unexpected EOF"), strings.Contains(s, "unclosed"):
		return "truncated"
	case strings.Contains(s, "closed by"), strings.Contains(s, "unbalanced"):
		return "misnested"
	case strings.Contains(s, "no root"):
		return "empty"
	case strings.Contains(s, "invalid character entity"), strings.Contains(s, "invalid sequence"):
		return "bad-entity"
	case strings.Contains(s, "expected attribute name"), strings.Contains(s, "attribute name without"), strings.Contains(s, "unquoted or missing attribute"):
		return "bad-attribute"
	case strings.Contains(s, "expected element name"), strings.Contains(s, "invalid XML name"):
		return "bad-name"
	}
	return "syntax"
}

// CheckWellFormed is the C01 oracle on one saved package.
func CheckWellFormed(b []byte) (*inspect.Package, []sim.Violation) {
	pkg, err := inspect.ReadZip(b)
	if err != nil {
		return nil, []sim.Violation{v("zip", "unreadable", err.Error())}
	}
	var out []sim.Violation
	if len(pkg.Dup) > 0 {
		out = append(out, v("zip", "duplicate-entry:"+normPart(pkg.Dup[0]), strings.Join(pkg.Dup, ",")))
	}
	ct, err := pkg.ContentTypes()
	if err != nil {
		return pkg, append(out, v("content-types", "unusable", err.Error()))
	}
	if len(ct.DupDef) > 0 {
		out = append(out, v("content-types", "duplicate-default:"+ct.DupDef[0], strings.Join(ct.DupDef, ",")))
	}
	if len(ct.DupOvr) > 0 {
		out = append(out, v("content-types", "duplicate-override:"+normPart(ct.DupOvr[0]), strings.Join(ct.DupOvr, ",")))
	}
	main, err := pkg.MainPart()
	if err != nil {
		out = append(out, v("package-rels", "main-part", err.Error()))
	} else {
		if _, ok := pkg.Parts[main]; !ok {
			out = append(out, v("package-rels", "main-part-missing", main))
		} else if t, _ := ct.TypeOf(main); t != inspect.CTMain {
			out = append(out, v("package-rels", "main-part-type", fmt.Sprintf("%s has type %q", main, t)))
		}
	}
	for _, name := range pkg.SortedNames() {
		if name == "[Content_Types].xml" {
			continue
		}
		if strings.HasSuffix(name, "/") {
			continue
		}
		t, ok := ct.TypeOf(name)
		if !ok {
			out = append(out, v("content-type-missing", normPart(path.Dir(name))+"/*"+strings.ToLower(path.Ext(name)), "part "+name+" has no content type"))
			// XML-looking parts are still checked below
		}
		isXML := inspect.IsXMLType(t) || strings.HasSuffix(name, ".xml") || strings.HasSuffix(name, ".rels")
		if !isXML {
			continue
		}
		if _, err := inspect.ParseXML(pkg.Parts[name]); err != nil {
			out = append(out, v("part-xml", normPart(name)+":"+xmlErrClass(err), name+": "+err.Error()))
		}
	}
	return pkg, out
}

// ---- C02 -----------------------------------------------------------------------

var ownerMain = map[string]bool{
	"footnotes": true, "endnotes": true, "settings": true, "numbering": true, "styles": true,
	"header": true, "footer": true, "image": true, "fontTable": true, "theme": true, "webSettings": true, "comments": true, "hyperlink": true,
}

// CheckRels is the C02 oracle on one saved package.
func CheckRels(pkg *inspect.Package) []sim.Violation {
	var out []sim.Violation
	relsByPart := map[string][]inspect.Rel{}
	for _, rp := range pkg.RelsParts() {
		rels, err := pkg.Rels(rp)
		if err != nil {
			continue // well-formedness is C01's business
		}
		relsByPart[rp] = rels
		src, okSrc := inspect.SourceOfRels(rp)
		if okSrc && src != "" {
			if _, ok := pkg.Parts[src]; !ok {
				out = append(out, v("orphan-rels-part", normPart(rp), "relationship part "+rp+" has no source part "+src))
			}
		}
		seen := map[string]string{}
		for _, r := range rels {
			if r.ID == "" {
				out = append(out, v("empty-id", normPart(rp)+":"+shortType(r.Type), "relationship without Id in "+rp))
			}
			if prev, dup := seen[r.ID]; dup {
				ts := []string{shortType(prev), shortType(r.Type)}
				sort.Strings(ts)
				out = append(out, v("dup-id", normPart(rp)+":"+strings.Join(ts, "+"), fmt.Sprintf("%s: id %s used by two relationships (%s, %s)", rp, r.ID, prev, r.Type)))
			}
			seen[r.ID] = r.Type
			if strings.EqualFold(r.Mode, "External") {
				continue
			}
			if _, ok := pkg.Parts[r.Resolved]; !ok {
				out = append(out, v("dangling-target", normPart(rp)+":"+shortType(r.Type), fmt.Sprintf("%s: %s (%s) -> %q resolves to %q which is not in the package", rp, r.ID, shortType(r.Type), r.Target, r.Resolved)))
			}
			if src == "" && ownerMain[shortType(r.Type)] {
				out = append(out, v("wrong-owner", "package-root:"+shortType(r.Type), fmt.Sprintf("%s relationship %s sits in _rels/.rels but is used by the main part", shortType(r.Type), r.ID)))
			}
		}
	}
	// references from content parts
	for _, name := range pkg.SortedNames() {
		if !strings.HasPrefix(name, "word/") || !strings.HasSuffix(name, ".xml") || strings.Contains(name, "/_rels/") {
			continue
		}
		root, err := inspect.ParseXML(pkg.Parts[name])
		if err != nil {
			continue
		}
		rels := relsByPart[inspect.RelsPartFor(name)]
		byID := map[string][]inspect.Rel{}
		for _, r := range rels {
			byID[r.ID] = append(byID[r.ID], r)
		}
		check := func(el, id, wantType string) {
			rs := byID[id]
			if len(rs) == 0 {
				out = append(out, v("unresolved-ref", normPart(name)+":"+el, fmt.Sprintf("%s: %s refers to relationship %q which %s does not define", name, el, id, inspect.RelsPartFor(name))))
				return
			}
			okType := false
			for _, r := range rs {
				if r.Type == wantType {
					okType = true
				}
			}
			if !okType {
				out = append(out, v("wrong-type-ref", normPart(name)+":"+el+"->"+shortType(rs[0].Type), fmt.Sprintf("%s: %s %q resolves to a %s relationship", name, el, id, shortType(rs[0].Type))))
			}
		}
		root.Walk(func(n *inspect.Node) bool {
			switch {
			case n.Is(inspect.NsW, "headerReference"):
				check("w:headerReference", n.Attr(inspect.NsR, "id"), inspect.RelHdr)
			case n.Is(inspect.NsW, "footerReference"):
				check("w:footerReference", n.Attr(inspect.NsR, "id"), inspect.RelFtr)
			case n.Is(inspect.NsA, "blip"):
				if id, ok := n.AttrOK(inspect.NsR, "embed"); ok {
					check("a:blip", id, inspect.RelImg)
				}
			}
			return true
		})
	}
	return out
}

// ---- C13 -----------------------------------------------------------------------

// CheckIDClosure is the C13 oracle: every style / numbering / note id used in
// a content part is defined in the package.
func CheckIDClosure(pkg *inspect.Package, exempt map[string]bool) []sim.Violation {
	var out []sim.Violation
	styles := map[string]bool{}
	haveStyles := false
	if b, ok := pkg.Parts["word/styles.xml"]; ok {
		if root, err := inspect.ParseXML(b); err == nil {
			haveStyles = true
			for _, s := range root.Find(inspect.NsW, "style") {
				styles[s.Attr(inspect.NsW, "styleId")] = true
			}
		}
	}
	nums := map[string]string{}
	abstracts := map[string]bool{}
	if b, ok := pkg.Parts["word/numbering.xml"]; ok {
		if root, err := inspect.ParseXML(b); err == nil {
			for _, a := range root.Children(inspect.NsW, "abstractNum") {
				abstracts[a.Attr(inspect.NsW, "abstractNumId")] = true
			}
			for _, n := range root.Children(inspect.NsW, "num") {
				nums[n.Attr(inspect.NsW, "numId")] = n.Child(inspect.NsW, "abstractNumId").Val()
			}
		}
	}
	noteIDs := func(part, el string) map[string]bool {
		m := map[string]bool{}
		if b, ok := pkg.Parts[part]; ok {
			if root, err := inspect.ParseXML(b); err == nil {
				for _, n := range root.Children(inspect.NsW, el) {
					m[n.Attr(inspect.NsW, "id")] = true
				}
			}
		}
		return m
	}
	fns, ens := noteIDs("word/footnotes.xml", "footnote"), noteIDs("word/endnotes.xml", "endnote")
	seen := map[string]bool{}
	add := func(x sim.Violation) {
		if !seen[x.Key()+x.Detail] {
			seen[x.Key()+x.Detail] = true
			out = append(out, x)
		}
	}
	for _, name := range pkg.SortedNames() {
		if !strings.HasPrefix(name, "word/") || !strings.HasSuffix(name, ".xml") {
			continue
		}
		base := path.Base(name)
		if !(base == "document.xml" || strings.HasPrefix(base, "header") || strings.HasPrefix(base, "footer") || base == "footnotes.xml" || base == "endnotes.xml") {
			continue
		}
		root, err := inspect.ParseXML(pkg.Parts[name])
		if err != nil {
			continue
		}
		root.Walk(func(n *inspect.Node) bool {
			if n.Space != inspect.NsW {
				return true
			}
			switch n.Local {
			case "pStyle", "rStyle", "tblStyle":
				id := n.Val()
				if exempt[id] {
					return true // the caller referred to an id it never defined: not the library's doing
				}
				if !haveStyles || !styles[id] {
					add(v("undefined-style", n.Local+":"+styleClass(id), fmt.Sprintf("%s uses %s %q which word/styles.xml does not define", name, n.Local, id)))
				}
			case "numId":
				id := n.Val()
				if id == "0" { // numId 0 = "no numbering"
					return true
				}
				abs, ok := nums[id]
				if !ok {
					add(v("undefined-num", normPart(name), fmt.Sprintf("%s uses numId %q which word/numbering.xml does not define", name, id)))
				} else if !abstracts[abs] {
					add(v("undefined-abstract", normPart(name), fmt.Sprintf("num %q points at abstractNum %q which is not defined", id, abs)))
				}
			case "footnoteReference":
				if id := n.Attr(inspect.NsW, "id"); !fns[id] {
					add(v("undefined-note", "footnote", fmt.Sprintf("%s refers to footnote %q which word/footnotes.xml does not define", name, id)))
				}
			case "endnoteReference":
				if id := n.Attr(inspect.NsW, "id"); !ens[id] {
					add(v("undefined-note", "endnote", fmt.Sprintf("%s refers to endnote %q which word/endnotes.xml does not define", name, id)))
				}
			}
			return true
		})
	}
	return out
}

// styleClass keeps well-known ids and folds generated ones.
func styleClass(id string) string {
	if tableTemplate.MatchString(id) {
		return "table-style-template"
	}
	if numericID.MatchString(id) {
		return "numeric-toc-style"
	}
	if strings.Contains(id, "⟦") || len(id) > 24 {
		return "custom"
	}
	return digits.ReplaceAllString(id, "N")
}
