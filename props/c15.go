package props

import (
	"fmt"
	"sort"
	"strconv"
	"strings"

	"github.com/zerx-lab/wordZero/pkg/document"

	"verif/inspect"
	"verif/sim"
	"verif/world"
)

// C15 — lists, notes and tables of contents reflect exactly the calls made.
type c15 struct{}

func init() { Register(c15{}) }

func (c15) ID() string     { return "C15" }
func (c15) Flavor() string { return "instr" }
func (c15) Runs(tier string) int {
	if tier == "thorough" {
		return 150000
	}
	return 6000
}

func (c15) Describe() Description {
	return Description{
		Rule: "one case = a seeded history on one document of list items of all types, bullet symbols, levels and start numbers (AddListItem incl. nil config, AddBulletList, AddNumberedList), " +
			"footnote/endnote add and remove (existing id, removed twice, unknown id), headings 1-9 interleaved with other content, GenerateTOC / UpdateTOC with max level 1-9, with save events " +
			"and document restarts - while an INTERFERING second document issues the same list types and levels with other start numbers and symbols first (to occupy the process-wide " +
			"definition cache) under a simulator-chosen map-iteration order. Model per document: every list item's requested (format, symbol, start, level); the multiset of notes; the ordered " +
			"headings. At every save event (independent parser): each list paragraph's numId -> num -> abstractNum has, at the paragraph's ilvl, the requested numFmt, bullet symbol and start; " +
			"the notes parts contain exactly the model's notes, each once; Get*noteCount and removal results equal the model's; after a TOC call the TOC lists exactly the headings up to the " +
			"requested level, in order, with their text; a second UpdateTOC changes nothing. Non-trivial = >= 2 list items or notes or a TOC call, and >= 1 save; distinct = distinct fingerprints.",
		Assumptions: []string{"notes are used by one document per case and process restarts are not part of the search lane (process-wide registries: listed under C07 / C13)",
			"levels are drawn from 0..8 in the search lane (levels outside that range: listed finding with a witness)"},
		RealVsStub: map[string]string{"real": "numbering, notes and TOC code incl. the process-wide registries; writer/reader", "stub": "map iteration order"},
	}
}

func (c15) Nontrivial(c *sim.Case, st *sim.Stats) bool {
	n := st.Ops["li"] + st.Ops["bullet"] + st.Ops["numbered"] + st.Ops["fn"] + st.Ops["en"] + 2*(st.Ops["toc.gen"]+st.Ops["toc.update"])
	return n >= 2 && st.Probes["save_events"] >= 1
}

func (c15) Gen(r *sim.Rand, c *sim.Case, tier string) {
	var a, b []sim.Op // a: the document under observation (slot 0), b: the interfering one (slot 1)
	tag := 0
	text := func() sim.Str { tag++; return sim.Str(fmt.Sprintf("item⟦%d⟧", tag)) }
	li := func(slot int) sim.Op {
		lvl := r.Range(0, 8)
		if Wild && r.Chance(0.1) {
			lvl = r.Pick2(-1, 9, 10)
		}
		switch r.Intn(6) {
		case 0:
			return sim.Op{K: "bullet", D: slot, S: []sim.Str{text(), "", sim.Str(c15bullets[r.Intn(len(c15bullets))])}, I: []int{0, lvl}}
		case 1:
			return sim.Op{K: "numbered", D: slot, S: []sim.Str{text(), sim.Str(listTypesP[1+r.Intn(6)])}, I: []int{0, lvl}}
		case 2:
			return sim.Op{K: "li", D: slot, S: []sim.Str{text(), "bullet", "•"}, I: []int{0, 0, 1}} // nil config
		default:
			return sim.Op{K: "li", D: slot, S: []sim.Str{text(), sim.Str(listTypesP[r.Intn(7)]), sim.Str(c15bullets[r.Intn(len(c15bullets))])}, I: []int{[]int{0, 1, 1, 3, 5, 10, 42}[r.Intn(7)], lvl, 0}}
		}
	}
	nb := r.Intn(6)
	for i := 0; i < nb; i++ {
		b = append(b, li(1))
	}
	notes := 0
	var headTexts []sim.Str
	n := r.Range(3, 25)
	tocMax, tocTwice := 0, false
	for len(a) < n {
		switch x := r.Intn(20); {
		case x < 7:
			a = append(a, li(0))
		case x < 10:
			notes++
			a = append(a, sim.Op{K: r.Pick("fn", "en"), S: []sim.Str{text(), text()}})
		case x < 12:
			if notes > 0 {
				id := strconv.Itoa(r.Range(0, notes+1))
				a = append(a, sim.Op{K: r.Pick("rmfn", "rmen"), S: []sim.Str{sim.Str(id)}})
			}
		case x < 16:
			// heading texts may repeat (an "Overview" under two chapters) or differ only in space vs underscore
			tag++
			ht := sim.Str(fmt.Sprintf("Sec %d⟦%d⟧", tag%4, tag))
			if len(headTexts) > 0 && r.Chance(0.3) {
				ht = headTexts[r.Intn(len(headTexts))]
				if r.Chance(0.3) {
					ht = sim.Str(strings.ReplaceAll(string(ht), " ", "_"))
				}
			}
			headTexts = append(headTexts, ht)
			a = append(a, sim.Op{K: "heading", S: []sim.Str{ht}, I: []int{r.Range(1, 9)}})
			if tocMax != 0 && r.Chance(0.25) {
				// the heading is taken out again and another one put in its place (the body has as many elements as before); a table of
				// contents that is refreshed afterwards lists the new one
				tag++
				nt := sim.Str(fmt.Sprintf("Sec %d⟦%d⟧", tag%4, tag))
				a = append(a, sim.Op{K: "rm.para", I: []int{-1, 0, 7}}, sim.Op{K: "heading", S: []sim.Str{nt}, I: []int{r.Range(1, 3)}})
				if !tocTwice || Wild {
					a = append(a, sim.Op{K: "toc.update"})
				}
			}
		case x < 17:
			if tocMax == 0 {
				tocMax = r.Range(1, 9) // (UpdateTOC used to rebuild with the default level - repaired, repo a369783)
				a = append(a, sim.Op{K: "toc.gen", S: []sim.Str{"Contents"}, I: []int{tocMax, 15}})
			} else if r.Chance(0.3) {
				// a table of contents is generated again, for another level: it lists the headings up to THAT level
				// (the document then holds two tables of contents and UpdateTOC refreshes the first: which one "the" table is
				// after that is not for this check to say, so no update follows)
				tocMax, tocTwice = r.Range(1, 9), true
				a = append(a, sim.Op{K: "toc.gen", S: []sim.Str{"Contents"}, I: []int{tocMax, 15}})
			} else if !tocTwice || Wild {
				a = append(a, sim.Op{K: "toc.update"})
			}
		case x < 18:
			a = append(a, sim.Op{K: "obs", I: []int{1}})
		default:
			a = append(a, sim.Op{K: "para", S: []sim.Str{text()}})
		}
	}
	rp := 0.3
	if tocMax != 0 && !Wild {
		rp = 0 // a content control does not survive save+open (listed under C03), so UpdateTOC after a restart finds no TOC
	}
	a = sprinkleSaves(r, a, 0, r.Range(2, 8), rp, 0)
	if nb > 0 && r.Bool() {
		b = append(b, sim.Op{K: "save", D: 1})
	}
	ops := b
	if r.Bool() {
		ops = interleave(r, a, b)
	} else {
		ops = append(ops, a...)
	}
	c.Tasks = [][]sim.Op{ops}
	c.Order = orderPolicy(r)
	c.OrderSeed = r.Uint64()
}

var c15bullets = []string{"•", "○", "■", "–", "→"}
var listTypesP = []string{"bullet", "number", "decimal", "lowerLetter", "upperLetter", "lowerRoman", "upperRoman"}

type c15item struct {
	text   string
	typ    string
	symbol string
	start  int
	level  int
}

type c15note struct {
	id   string
	kind string // fn | en
	text string
}

type c15head struct {
	level int
	text  string
}

func numFmtOf(typ string) string {
	switch typ {
	case "bullet":
		return "bullet"
	case "number", "decimal":
		return "decimal"
	}
	return typ
}

func (c15) Exec(c *sim.Case, env *Env) []sim.Violation {
	var items []c15item
	var notes []c15note
	var heads []c15head
	lastWasHeading := false
	var headHandle *document.Paragraph
	nextFn, nextEn := 1, 1
	tocMax := 0            // level of the TOC currently in the document (0 = none)
	var tocHeads []c15head // headings the TOC must list (as of the last TOC call)
	obs := &histObserver{panics: true}
	checkTOC := func(w *world.World, ds *world.Doc, when string) {
		b, err := ds.D.ToBytes()
		if err != nil {
			return
		}
		pkg, err := inspect.ReadZip(b)
		if err != nil {
			return
		}
		root, err := inspect.ParseXML(pkg.Parts["word/document.xml"])
		if err != nil {
			return
		}
		var toc *inspect.Node
		for _, k := range root.Child(inspect.NsW, "body").Children(inspect.NsW, "sdt") {
			toc = k // the last one
		}
		if toc == nil {
			w.Fail("toc", "toc-missing", when+": the document has no table-of-contents content control")
			return
		}
		var got []c15head
		var pending string
		have := false
		for _, k := range toc.Child(inspect.NsW, "sdtContent").Elems() {
			switch {
			case k.Is(inspect.NsW, "sdt"):
				pending = ""
				for _, t := range k.Find(inspect.NsW, "t") {
					pending += t.InnerText()
				}
				have = true
			case k.Is(inspect.NsW, "p") && have:
				lvl := 0
				if ps := k.Child(inspect.NsW, "pPr").Child(inspect.NsW, "pStyle"); ps != nil {
					if n, err := strconv.Atoi(ps.Val()); err == nil {
						lvl = n - 12
					}
				}
				got = append(got, c15head{lvl, pending})
				have = false
			}
		}
		want := tocHeads
		sig := "entries-differ-from-headings"
		if strings.HasSuffix(when, "toc.update") && tocMax != 3 {
			sig += ":after-update-of-a-toc-with-non-default-level" // precondition of the listed finding
		}
		if len(got) != len(want) {
			w.Fail("toc", sig, fmt.Sprintf("%s: the TOC lists %d entries, the document has %d headings up to level %d", when, len(got), len(want), tocMax))
			return
		}
		for i := range want {
			if got[i] != want[i] {
				w.Fail("toc", sig, fmt.Sprintf("%s: TOC entry %d is (%d,%q), heading %d is (%d,%q)", when, i, got[i].level, clip(got[i].text), i, want[i].level, clip(want[i].text)))
				return
			}
		}
		w.Stats.Probe("toc_checked")
	}
	obs.after = func(w *world.World, op sim.Op, ds *world.Doc, o *world.Obs) {
		if ds.Slot != 0 || o.Skipped || ds.Dead {
			return
		}
		// the paragraph handle the harness holds last: is it the heading a "heading" operation appended? (whatever operations
		// that add no paragraph came in between)
		wasHeading := lastWasHeading && len(ds.Paras) > 0 && ds.Paras[len(ds.Paras)-1] == headHandle
		if op.K == "heading" && len(ds.Paras) > 0 {
			lastWasHeading, headHandle = op.Str(0) != "", ds.Paras[len(ds.Paras)-1]
		}
		switch op.K {
		case "li":
			if o.Res == "nil" {
				return
			}
			it := c15item{text: op.Str(0), typ: op.Str(1), symbol: op.Str(2), start: op.Int(0), level: op.Int(1)}
			if op.Int(2) != 0 {
				it = c15item{text: op.Str(0), typ: "bullet", symbol: "•"}
			}
			items = append(items, it)
		case "bullet":
			if o.Res != "nil" {
				items = append(items, c15item{text: op.Str(0), typ: "bullet", symbol: op.Str(2), level: op.Int(1)})
			}
		case "numbered":
			if o.Res != "nil" {
				items = append(items, c15item{text: op.Str(0), typ: op.Str(1), start: 1, level: op.Int(1)})
			}
		case "fn":
			if o.Err == nil {
				notes = append(notes, c15note{strconv.Itoa(nextFn), "fn", op.Str(1)})
				nextFn++
			}
		case "en":
			if o.Err == nil {
				notes = append(notes, c15note{strconv.Itoa(nextEn), "en", op.Str(1)})
				nextEn++
			}
		case "rmfn", "rmen":
			kind := op.K[2:]
			found := -1
			for i, n := range notes {
				if n.kind == kind && n.id == op.Str(0) {
					found = i
				}
			}
			if (found >= 0) != (o.Err == nil) {
				w.Fail("note-removal", op.K, fmt.Sprintf("%s(%q) returned err=%v; the model has that note: %v", op.K, op.Str(0), o.Err, found >= 0))
				return
			}
			if found >= 0 {
				notes = append(notes[:found:found], notes[found+1:]...)
			}
		case "heading":
			if op.Str(0) != "" {
				heads = append(heads, c15head{op.Int(0), op.Str(0)})
			}
		case "rm.para":
			if op.Int(2) == 7 && wasHeading && o.Res == "true" && len(heads) > 0 {
				heads = heads[:len(heads)-1] // the heading the previous operation appended
			}
		case "toc.gen", "toc.update":
			if o.Err != nil {
				if op.K == "toc.update" && tocMax == 0 {
					return // nothing to update
				}
				w.Fail("toc", op.K+"-failed", fmt.Sprintf("%s failed: %v", op.K, o.Err))
				return
			}
			if op.K == "toc.gen" {
				tocMax = op.Int(0)
			}
			tocHeads = nil
			for _, h := range heads {
				if h.level <= tocMax {
					tocHeads = append(tocHeads, h)
				}
			}
			checkTOC(w, ds, "after "+op.K)
			if op.K == "toc.update" && !w.Failed() {
				b1, _ := ds.D.ToBytes()
				_ = ds.D.UpdateTOC()
				b2, _ := ds.D.ToBytes()
				c1, e1 := CanonPackage(b1)
				c2, e2 := CanonPackage(b2)
				if e1 == nil && e2 == nil {
					if sg, det := PkgDiff(c1, c2); sg != "" {
						w.Fail("toc", "update-not-idempotent:"+sg, "a second UpdateTOC changed the document: "+det)
					}
				}
			}
		case "obs":
			fn, en := 0, 0
			for _, n := range notes {
				if n.kind == "fn" {
					fn++
				} else {
					en++
				}
			}
			want := fmt.Sprintf("fncount=%d;encount=%d;", fn, en)
			if !strings.Contains(o.Res, want) {
				w.Fail("note-count", "Get*noteCount", fmt.Sprintf("accessors say %q, the model has %s", o.Res, want))
			}
		}
	}
	obs.onSave = func(w *world.World, ds *world.Doc, b []byte) []sim.Violation {
		if ds.Slot != 0 {
			return nil
		}
		pkg, err := inspect.ReadZip(b)
		if err != nil {
			return nil
		}
		root, err := inspect.ParseXML(pkg.Parts["word/document.xml"])
		if err != nil {
			return nil
		}
		// ---- lists
		type lvlDef struct{ fmt, text, start string }
		abs := map[string]map[string]lvlDef{}
		nums := map[string]string{}
		if nb, ok := pkg.Parts["word/numbering.xml"]; ok {
			if nr, err := inspect.ParseXML(nb); err == nil {
				for _, a := range nr.Children(inspect.NsW, "abstractNum") {
					m := map[string]lvlDef{}
					for _, l := range a.Children(inspect.NsW, "lvl") {
						m[l.Attr(inspect.NsW, "ilvl")] = lvlDef{l.Child(inspect.NsW, "numFmt").Val(), l.Child(inspect.NsW, "lvlText").Val(), l.Child(inspect.NsW, "start").Val()}
					}
					abs[a.Attr(inspect.NsW, "abstractNumId")] = m
				}
				for _, n := range nr.Children(inspect.NsW, "num") {
					nums[n.Attr(inspect.NsW, "numId")] = n.Child(inspect.NsW, "abstractNumId").Val()
				}
			}
		}
		var paras []*inspect.Node
		for _, p := range root.Child(inspect.NsW, "body").Children(inspect.NsW, "p") {
			if p.Child(inspect.NsW, "pPr").Child(inspect.NsW, "numPr") != nil {
				paras = append(paras, p)
			}
		}
		if len(paras) != len(items) {
			return []sim.Violation{v("list", "item-count", fmt.Sprintf("the saved body has %d list paragraphs, %d list items were added", len(paras), len(items)))}
		}
		for i, p := range paras {
			it := items[i]
			np := p.Child(inspect.NsW, "pPr").Child(inspect.NsW, "numPr")
			ilvl, numID := np.Child(inspect.NsW, "ilvl").Val(), np.Child(inspect.NsW, "numId").Val()
			if ilvl != strconv.Itoa(it.level) {
				return []sim.Violation{v("list", "level", fmt.Sprintf("item %d (%q) has ilvl %s, requested level %d", i, it.text, ilvl, it.level))}
			}
			a, ok := nums[numID]
			if !ok {
				return []sim.Violation{v("list", "definition-missing", fmt.Sprintf("item %d (%q) uses numId %s which numbering.xml does not define", i, it.text, numID))}
			}
			def, ok := abs[a][ilvl]
			if !ok {
				cls := "level-not-defined"
				if it.level < 0 || it.level > 8 {
					cls = "level-not-defined:level-outside-0-8"
				}
				return []sim.Violation{v("list", cls, fmt.Sprintf("item %d (%q): abstractNum %s has no definition for level %s", i, it.text, a, ilvl))}
			}
			switch {
			case def.fmt != numFmtOf(it.typ):
				return []sim.Violation{v("list", "number-format", fmt.Sprintf("item %d (%q): numFmt %q at its level, requested type %q", i, it.text, def.fmt, it.typ))}
			case it.typ == "bullet" && def.text != it.symbol:
				return []sim.Violation{v("list", "bullet-symbol", fmt.Sprintf("item %d (%q): bullet %q at its level, requested %q", i, it.text, def.text, it.symbol))}
			case it.typ != "bullet" && def.start != strconv.Itoa(it.start):
				return []sim.Violation{v("list", "start-number", fmt.Sprintf("item %d (%q): start %q at its level, requested %d", i, it.text, def.start, it.start))}
			}
			w.Stats.Probe("list_items_checked")
		}
		// ---- notes: exactly the model's, each once
		for _, side := range []struct{ part, el, kind string }{{"word/footnotes.xml", "footnote", "fn"}, {"word/endnotes.xml", "endnote", "en"}} {
			var want []string
			for _, n := range notes {
				if n.kind == side.kind {
					want = append(want, n.text)
				}
			}
			var got []string
			if nb, ok := pkg.Parts[side.part]; ok {
				if nr, err := inspect.ParseXML(nb); err == nil {
					for _, n := range nr.Children(inspect.NsW, side.el) {
						if t := n.Attr(inspect.NsW, "type"); t == "separator" || t == "continuationSeparator" {
							continue
						}
						txt := ""
						for _, t := range n.Find(inspect.NsW, "t") {
							txt += t.InnerText()
						}
						got = append(got, txt)
					}
				}
			}
			sort.Strings(want)
			sort.Strings(got)
			// a note's paragraph may carry its number before the text: compare by suffix
			if len(got) != len(want) {
				return []sim.Violation{v("notes", side.el+"-set", fmt.Sprintf("%s holds %d notes %v, the document was given %d %v", side.part, len(got), clipList(got), len(want), clipList(want)))}
			}
			used := make([]bool, len(got))
			for _, wt := range want {
				ok := false
				for j, g := range got {
					if !used[j] && strings.HasSuffix(g, wt) {
						used[j], ok = true, true
						break
					}
				}
				if !ok {
					return []sim.Violation{v("notes", side.el+"-set", fmt.Sprintf("%s does not hold the note %q exactly once (it holds %v)", side.part, clip(wt), clipList(got)))}
				}
			}
		}
		return nil
	}
	_, viol := runHistory(c, env, "c15", obs, nil)
	if len(viol) > 1 && c.Lane != "B" {
		viol = viol[:1]
	}
	return viol
}

func clipList(xs []string) []string {
	var out []string
	for i, x := range xs {
		if i >= 4 {
			out = append(out, "…")
			break
		}
		out = append(out, clip(x))
	}
	return out
}

func (c15) Witnesses() []*sim.Case {
	mk := func(note string, ops ...sim.Op) *sim.Case {
		ops = append(ops, sim.Op{K: "save"})
		return &sim.Case{Prop: "C15", Lane: "B", Note: note, Order: "sorted", Cfg: map[string]int{}, Tasks: [][]sim.Op{ops}}
	}
	li := func(slot int, t, typ string, start, lvl int) sim.Op {
		return sim.Op{K: "li", D: slot, S: []sim.Str{sim.Str(t), sim.Str(typ), "•"}, I: []int{start, lvl, 0}}
	}
	h := func(t string, l int) sim.Op { return sim.Op{K: "heading", S: []sim.Str{sim.Str(t)}, I: []int{l}} }
	return []*sim.Case{
		mk("start-number-not-in-cache-key (fixed): two lists of one type with other start numbers", li(0, "a", "number", 1, 0), li(0, "b", "number", 5, 0)),
		mk("start-number-not-in-cache-key (fixed): another document occupied the key first", li(1, "x", "lowerRoman", 1, 2), li(0, "a", "lowerRoman", 7, 2)),
		mk("list-level-outside-0-8", li(0, "deep", "number", 1, 9)),
		mk("toc-update-uses-default-level", h("one", 1), h("five", 5), sim.Op{K: "toc.gen", S: []sim.Str{"Contents"}, I: []int{6, 15}}, sim.Op{K: "toc.update"}),
	}
}
