package props

import (
	"encoding/json"
	"fmt"
	"regexp"
	"strconv"
	"strings"

	"github.com/zerx-lab/wordZero/pkg/document"

	"verif/sim"
	"verif/simrt"
)

// C16 — text templates render according to the documented substitution semantics.
//
// The simulation-specific part is the order in which data maps are iterated
// (the simulator owns it); everything else is the fault-free configuration of
// the same check: a reference interpreter written from the statement.
type c16 struct{}

func init() { Register(c16{}) }

func (c16) ID() string     { return "C16" }
func (c16) Flavor() string { return "instr" }
func (c16) Runs(tier string) int {
	if tier == "thorough" {
		return 3000000
	}
	return 80000
}

func (c16) Describe() Description {
	return Description{
		Rule: "one case = a text template generated from the documented grammar (literal text incl. brace characters, directive look-alikes and newlines; variables; if / if-else; each with " +
			"{{this}}, {{@index}}, {{@first}}, {{@last}}, item fields, conditionals on item fields, nested each over item lists; blocks with one level of inheritance) and data (strings, " +
			"numbers, booleans, empty strings, missing entries, empty lists, lists of scalars, lists of maps with nested lists), rendered through RenderToDocument and RenderTemplateToDocument in " +
			"a fresh engine under a simulator-chosen iteration order of every data map; the render is repeated under the reversed order. Oracle: the paragraph texts of the rendered document " +
			"(joined by newlines, blank lines as the documented line splitting leaves them) equal the text produced by a reference interpreter written from the statement (single pass over " +
			"the template tree, values inserted verbatim, unknown variables left in place, absent condition = false); both orders and both entry points give the same text. Non-trivial = the " +
			"template has >= 2 directives and the output is not empty; distinct = distinct fingerprints.",
		Assumptions: []string{"the search lane keeps template syntax out of data VALUES and loop-context variables out of NESTED loop bodies (two listed findings with witnesses)",
			"numbers are rendered in shortest decimal form (the only convention under which integers given as data read back as integers)"},
		RealVsStub: map[string]string{"real": "template engine (regular-expression pipeline), document construction from the rendered text", "stub": "map iteration order of data maps (verifrt.Keys); the reference interpreter is simulator code"},
	}
}

func (c16) Nontrivial(c *sim.Case, st *sim.Stats) bool {
	return st.Probes["directives"] >= 2 && st.Probes["nonempty_output"] > 0
}

// c16case is what a C16 case carries in its single op.
type c16case struct {
	Base  []*TNode `json:"base,omitempty"`  // parent template (with blocks), nil = no inheritance
	Tmpl  []*TNode `json:"tmpl"`            // the template rendered (child blocks when Base != nil)
	Mid   []*TNode `json:"mid,omitempty"`   // optional middle level: block overrides extending Base; Tmpl then extends Mid
	Child bool     `json:"child,omitempty"` // Tmpl is a list of block overrides extending Base (or Mid)
	Data  *TData   `json:"data"`
	// Hist: a history on ONE engine (Base is loaded once): per step, optionally render the base itself (only before the
	// first child exists), load a child that overrides every block of the base, render that child once or twice.
	// Only the base-before-any-child and the most recently loaded child are rendered: what a child load does to the base
	// and to older children is the listed finding of C17, not this lane's business.
	Hist []c16step `json:"hist,omitempty"`
	// ReuseData > 0: the renders of the history share one data object (see c16execHist)
	ReuseData int `json:"reuse_data,omitempty"`
}

type c16step struct {
	PreBase bool     `json:"pre_base,omitempty"` // render the base first (honoured only in step 0)
	Tmpl    []*TNode `json:"tmpl"`               // block overrides (all blocks of the base)
	Data    *TData   `json:"data"`
	Data2   *TData   `json:"data2,omitempty"` // a second render of the same child with other data
	// Reload: the child is loaded a second time under its name (same source) before it is rendered.
	// RemovePrev: the child loaded in the previous step is removed from the engine before this one is rendered.
	Reload     bool `json:"reload,omitempty"`
	RemovePrev bool `json:"remove_prev,omitempty"`
	Entry      int  `json:"entry"`
}

func (c16) Gen(r *sim.Rand, c *sim.Case, tier string) {
	g := &TGen{R: r.Fork(), Else: true, Nested: r.Bool(), Newlines: r.Chance(0.6), Hostile: r.Chance(0.5), VarRefs: r.Chance(0.4)}
	if Wild {
		g.HostileV = r.Bool()
		g.LoopVarsInNested = true
		g.MissingNested, g.MixedNested = true, true
	}
	if !Wild && r.Chance(0.08) {
		c16genHist(r, c)
		return
	}
	if !Wild && g.Nested && r.Chance(0.3) {
		// items that lack the list a nested loop iterates: the listed finding nested-loop-missing-list is recognised by its symptom
		// (the directive left in the output once per such item), everything else that happens to such items is reported
		g.MissingNested = true
	}
	inherit := r.Chance(0.25)
	if inherit && !Wild {
		g.VarRefs = false // the variable pass runs once per inheritance level: a value that mentions a placeholder is substituted again (listed finding)
	}
	cc := &c16case{Data: g.Data()}
	if inherit {
		// inheritance: a base with blocks, a child that overrides some of them
		var base []*TNode
		nb := r.Range(1, 3)
		for i := 0; i < nb; i++ {
			base = append(base, g.Seq(1)...)
			base = append(base, &TNode{Kind: "block", Name: fmt.Sprintf("b%d", i), Kids: []*TNode{g.lit(), {Kind: "var", Name: tVars[r.Intn(len(tVars))]}}})
		}
		base = append(base, g.lit())
		cc.Base = base
		cc.Child = true
		ovr := func(p float64) []*TNode {
			var out []*TNode
			for i := 0; i < nb; i++ {
				if r.Chance(p) {
					out = append(out, &TNode{Kind: "block", Name: fmt.Sprintf("b%d", i), Kids: []*TNode{g.lit(), {Kind: "var", Name: tVars[r.Intn(len(tVars))]}}})
				}
			}
			return out
		}
		cc.Tmpl = ovr(0.5)
		if r.Chance(0.4) { // three levels: base <- mid <- leaf
			cc.Mid = ovr(0.7)
			if cc.Mid == nil {
				cc.Mid = []*TNode{}
			}
		}
	} else {
		cc.Tmpl = g.Seq(r.Range(1, 6))
	}
	b, _ := json.Marshal(cc)
	c.Tasks = [][]sim.Op{{{K: "c16", S: []sim.Str{sim.Str(b)}, I: []int{r.Intn(2)}}}}
	c.Order = orderPolicy(r)
	c.OrderSeed = r.Uint64()
}

// c16genHist: the engine-history lane.
func c16genHist(r *sim.Rand, c *sim.Case) {
	g := &TGen{R: r.Fork(), Else: true, Nested: r.Bool(), Newlines: r.Chance(0.5)}
	nb := r.Range(1, 3)
	var base []*TNode
	for i := 0; i < nb; i++ {
		base = append(base, g.Seq(1)...)
		base = append(base, &TNode{Kind: "block", Name: fmt.Sprintf("b%d", i), Kids: []*TNode{g.lit(), {Kind: "var", Name: tVars[r.Intn(len(tVars))]}}})
	}
	base = append(base, g.lit())
	cc := &c16case{Base: base, Data: g.Data()}
	for k, n := 0, r.Range(2, 4); k < n; k++ {
		st := c16step{PreBase: k == 0 && r.Bool(), Data: g.Data(), Entry: r.Intn(2)}
		for i := 0; i < nb; i++ {
			st.Tmpl = append(st.Tmpl, &TNode{Kind: "block", Name: fmt.Sprintf("b%d", i), Kids: []*TNode{g.lit(), {Kind: "var", Name: tVars[r.Intn(len(tVars))]}}})
		}
		if r.Chance(0.4) {
			st.Data2 = g.Data()
		}
		st.Reload, st.RemovePrev = r.Chance(0.2), k > 0 && r.Chance(0.25)
		cc.Hist = append(cc.Hist, st)
	}
	if r.Chance(0.5) {
		cc.ReuseData = 1 + r.Intn(3)
	}
	b, _ := json.Marshal(cc)
	c.Tasks = [][]sim.Op{{{K: "c16", S: []sim.Str{sim.Str(b)}, I: []int{0}}}}
	c.Order = orderPolicy(r)
	c.OrderSeed = r.Uint64()
}

// c16execHist runs the engine-history lane: every render on the one engine equals the reference interpreter's output
// for that template alone.
func c16execHist(c *sim.Case, cc *c16case, env *Env) []sim.Violation {
	simrt.InstallOrder(c.Order, c.OrderSeed, 0, nil)
	defer simrt.Uninstall()
	eng := document.NewTemplateEngine()
	var viol []sim.Violation
	fail := func(clause, sig, detail string) {
		viol = append(viol, sim.Violation{Clause: clause, Sig: sig, Detail: detail})
	}
	// ReuseData: ONE data object serves every render of the history; between renders the caller brings it to the next data set
	// through the public ways there are (Clear and the setters; assignments to the exported maps; Merge of a fresh object over
	// emptied maps). A render must use what the object holds when it is called.
	var shared *document.TemplateData
	nthRender := 0
	dataFor := func(d *TData) *document.TemplateData {
		if cc.ReuseData == 0 {
			return d.ToLib()
		}
		fresh := d.ToLib()
		if shared == nil {
			shared = fresh
			return shared
		}
		nthRender++
		env.Stats.Probe("renders_with_reused_data_object")
		switch (cc.ReuseData + nthRender) % 3 {
		case 0: // Clear, then the setters
			shared.Clear()
			for _, k := range sortedKeysS2(fresh.Variables) {
				shared.SetVariable(k, fresh.Variables[k])
			}
			for _, k := range sortedKeysS2(fresh.Lists) {
				shared.SetList(k, fresh.Lists[k])
			}
			for _, k := range sortedKeysS2(fresh.Conditions) {
				shared.SetCondition(k, fresh.Conditions[k])
			}
		case 1: // the exported maps, directly
			for _, k := range sortedKeysS2(shared.Variables) {
				delete(shared.Variables, k)
			}
			for _, k := range sortedKeysS2(fresh.Variables) {
				shared.Variables[k] = fresh.Variables[k]
			}
			shared.Lists, shared.Conditions = fresh.Lists, fresh.Conditions
		default: // Merge of a never-rendered object over emptied maps
			shared.Variables, shared.Lists, shared.Conditions = map[string]interface{}{}, map[string][]interface{}{}, map[string]bool{}
			shared.Merge(fresh)
		}
		return shared
	}
	render := func(name string, d *TData, entry int) (string, bool) {
		var out string
		sig, pn := Guard(func() {
			var doc *document.Document
			var err error
			if entry == 0 {
				doc, err = eng.RenderToDocument(name, dataFor(d))
			} else {
				doc, err = eng.RenderTemplateToDocument(name, dataFor(d))
			}
			if err != nil || doc == nil {
				out = "render-error"
				return
			}
			out = docText(doc)
		})
		if pn {
			fail("panic", sig, "rendering "+name+" panicked")
			return "", false
		}
		return out, true
	}
	sig, pn := Guard(func() {
		if _, err := eng.LoadTemplate("base", tsrc(cc.Base)); err != nil {
			fail("render-failed", "history:load-error", "the base template failed to load: "+err.Error())
		}
	})
	if pn {
		fail("panic", sig, "loading the base panicked")
	}
	env.Stats.ProbeN("directives", int64(countDirectives(cc.Base)))
	for k, st := range cc.Hist {
		if len(viol) > 0 {
			break
		}
		if k == 0 && st.PreBase {
			want := normLines(refRender(cc.Base, &refCtx{data: st.Data, overrides: map[string][]*TNode{}}))
			got, ok := render("base", st.Data, st.Entry)
			env.Stats.Probe("history_base_renders")
			if ok && got != want {
				fail("differs-from-reference", "history:base-before-any-child", fmt.Sprintf("base %q\nreference %q\nrendered  %q", clip(tsrc(cc.Base)), clipAround(want, got), clipAround(got, want)))
				break
			}
		}
		name := fmt.Sprintf("c%d", k)
		if _, err := eng.LoadTemplate(name, "{{extends \"base\"}}"+tsrc(st.Tmpl)); err != nil {
			fail("render-failed", "history:load-error", "child "+name+" failed to load: "+err.Error())
			break
		}
		if st.Reload {
			if _, err := eng.LoadTemplate(name, "{{extends \"base\"}}"+tsrc(st.Tmpl)); err != nil {
				fail("render-failed", "history:load-error", "child "+name+" failed to load a second time: "+err.Error())
				break
			}
			env.Stats.Probe("history_child_reloaded")
		}
		if st.RemovePrev && k > 0 {
			eng.RemoveTemplate(fmt.Sprintf("c%d", k-1))
			env.Stats.Probe("history_sibling_removed")
		}
		ov := map[string][]*TNode{}
		for _, b := range st.Tmpl {
			ov[b.Name] = b.Kids
		}
		for j, d := range []*TData{st.Data, st.Data2} {
			if d == nil {
				continue
			}
			want := normLines(refRender(cc.Base, &refCtx{data: d, overrides: ov}))
			got, ok := render(name, d, (st.Entry+j)%2)
			env.Stats.Probe("history_child_renders")
			if got != "" {
				env.Stats.Probe("nonempty_output")
			}
			if ok && got != want {
				cls := "history:child-loaded-after-earlier-renders"
				if k == 0 && !st.PreBase && j == 0 {
					cls = "history:first-child"
				}
				fail("differs-from-reference", cls, fmt.Sprintf("step %d render %d: base %q child %q\ndata %s\nreference %q\nrendered  %q", k, j, clip(tsrc(cc.Base)), clip(tsrc(st.Tmpl)), clip(d.JSON()), clipAround(want, got), clipAround(got, want)))
				break
			}
		}
	}
	return viol
}

// ---- reference interpreter ------------------------------------------------------

func refStr(v any) string {
	switch x := v.(type) {
	case nil:
		return ""
	case string:
		return x
	case float64:
		return strconv.FormatFloat(x, 'f', -1, 64)
	case bool:
		return strconv.FormatBool(x)
	case int:
		return strconv.Itoa(x)
	}
	return fmt.Sprint(v)
}

type refCtx struct {
	item      any
	index, n  int
	inLoop    bool
	overrides map[string][]*TNode
	data      *TData
	outer     *refCtx // enclosing loop's context
}

func refRender(ns []*TNode, cx *refCtx) string {
	var sb strings.Builder
	for _, n := range ns {
		switch n.Kind {
		case "lit":
			sb.WriteString(n.Text)
		case "var":
			if v, ok := cx.data.Vars[n.Name]; ok {
				sb.WriteString(refStr(v))
			} else {
				sb.WriteString("{{" + n.Name + "}}")
			}
		case "field":
			// the item's own field; failing that the same field of an enclosing loop's item (the statement
			// does not say whether an inner body sees outer fields: the implementation's answer is accepted);
			// failing that the placeholder is unknown and stays
			done := false
			for sc := cx; sc != nil && !done; sc = sc.outer {
				if m, isMap := sc.item.(map[string]any); isMap {
					if v, ok := m[n.Name]; ok {
						if _, isList := v.([]any); !isList {
							sb.WriteString(refStr(v))
							done = true
						}
					}
				}
			}
			if !done {
				sb.WriteString("{{" + n.Name + "}}")
			}
		case "this":
			sb.WriteString(refStr(cx.item))
		case "index":
			sb.WriteString(strconv.Itoa(cx.index))
		case "first":
			sb.WriteString(strconv.FormatBool(cx.index == 0))
		case "last":
			sb.WriteString(strconv.FormatBool(cx.index == cx.n-1))
		case "if":
			if cx.data.Conds[n.Name] {
				sb.WriteString(refRender(n.Kids, cx))
			} else if n.HasE {
				sb.WriteString(refRender(n.Else, cx))
			}
		case "iffield":
			m, _ := cx.item.(map[string]any)
			t, _ := m[n.Name].(bool)
			if t {
				sb.WriteString(refRender(n.Kids, cx))
			} else if n.HasE {
				sb.WriteString(refRender(n.Else, cx))
			}
		case "each":
			var list []any
			if cx.inLoop {
				m, _ := cx.item.(map[string]any)
				list, _ = m[n.Name].([]any)
			} else {
				list = cx.data.Lists[n.Name]
			}
			for i, it := range list {
				sub := *cx
				sub.item, sub.index, sub.n, sub.inLoop = it, i, len(list), true
				if cx.inLoop {
					sub.outer = cx
				} else {
					sub.outer = nil
				}
				sb.WriteString(refRender(n.Kids, &sub))
			}
		case "block":
			if o, ok := cx.overrides[n.Name]; ok {
				sb.WriteString(refRender(o, cx))
			} else {
				sb.WriteString(refRender(n.Kids, cx))
			}
		}
	}
	return sb.String()
}

// normLines applies the documented line splitting: one paragraph per line,
// a blank line becomes an empty paragraph, a blank text yields no paragraph.
func normLines(s string) string {
	if strings.TrimSpace(s) == "" {
		return ""
	}
	ls := strings.Split(s, "\n")
	for i, l := range ls {
		if strings.TrimSpace(l) == "" {
			ls[i] = ""
		}
	}
	return strings.Join(ls, "\n")
}

func docText(d *document.Document) string {
	var ls []string
	for _, p := range d.Body.GetParagraphs() {
		var sb strings.Builder
		for i := range p.Runs {
			sb.WriteString(p.Runs[i].Text.Content)
		}
		ls = append(ls, sb.String())
	}
	return strings.Join(ls, "\n")
}

func countDirectives(ns []*TNode) int {
	n := 0
	for _, x := range ns {
		if x.Kind != "lit" {
			n++
		}
		n += countDirectives(x.Kids) + countDirectives(x.Else)
	}
	return n
}

// hasLoopVarInNested / valuesHaveSyntax: the preconditions of the two listed findings.
func hasLoopVarInNested(ns []*TNode, depth int) bool {
	for _, x := range ns {
		if depth >= 2 && (x.Kind == "index" || x.Kind == "first" || x.Kind == "last" || x.Kind == "this") {
			return true
		}
		d := depth
		if x.Kind == "each" {
			d++
		}
		if hasLoopVarInNested(x.Kids, d) || hasLoopVarInNested(x.Else, d) {
			return true
		}
	}
	return false
}

// nestedOverMissing: a nested loop iterates a list that some item of the enclosing list does not have
// (or that item is not a map at all).
func nestedOverMissing(ns []*TNode, d *TData) bool {
	for _, x := range ns {
		if x.Kind == "each" {
			for _, k := range x.Kids {
				if k.Kind != "each" {
					continue
				}
				for _, it := range d.Lists[x.Name] {
					m, ok := it.(map[string]any)
					if !ok {
						return true
					}
					if _, has := m[k.Name].([]any); !has {
						return true
					}
				}
			}
		}
		if nestedOverMissing(x.Kids, d) || nestedOverMissing(x.Else, d) {
			return true
		}
	}
	return false
}

// missingNestedCounts says, per nested list name, how many renderings of a nested each meet an item that lacks that list.
func missingNestedCounts(ns []*TNode, d *TData, out map[string]int) {
	for _, x := range ns {
		if x.Kind == "each" {
			for _, k := range x.Kids {
				if k.Kind != "each" {
					continue
				}
				for _, it := range d.Lists[x.Name] {
					m, ok := it.(map[string]any)
					if !ok {
						out[k.Name]++
						continue
					}
					if _, has := m[k.Name].([]any); !has {
						out[k.Name]++
					}
				}
			}
		}
		missingNestedCounts(x.Kids, d, out)
		missingNestedCounts(x.Else, d, out)
	}
}

func valuesHaveSyntax(v any) bool {
	switch x := v.(type) {
	case string:
		return strings.Contains(x, "{{")
	case map[string]any:
		for _, e := range x {
			if valuesHaveSyntax(e) {
				return true
			}
		}
	case []any:
		for _, e := range x {
			if valuesHaveSyntax(e) {
				return true
			}
		}
	}
	return false
}

func (c16) Exec(c *sim.Case, env *Env) []sim.Violation {
	op := c.Tasks[0][0]
	var cc c16case
	if err := json.Unmarshal([]byte(op.Str(0)), &cc); err != nil || cc.Data == nil {
		return nil
	}
	if len(cc.Hist) > 0 {
		return c16execHist(c, &cc, env)
	}
	src := tsrc(cc.Tmpl)
	if cc.Child {
		if cc.Mid != nil {
			src = "{{extends \"mid\"}}" + src
		} else {
			src = "{{extends \"base\"}}" + src
		}
	}
	cx := &refCtx{data: cc.Data, overrides: map[string][]*TNode{}}
	tree := cc.Tmpl
	if cc.Child {
		for _, lvl := range [][]*TNode{cc.Mid, cc.Tmpl} { // the nearest definition wins
			for _, b := range lvl {
				if b.Kind == "block" {
					cx.overrides[b.Name] = b.Kids
				}
			}
		}
		tree = cc.Base
	}
	want := normLines(refRender(tree, cx))
	env.Stats.ProbeN("directives", int64(countDirectives(cc.Tmpl)+countDirectives(cc.Base)))
	// preconditions of the listed findings become part of the signature
	sfx := ""
	synt := false
	for _, v := range cc.Data.Vars {
		// a top-level value that merely mentions a variable placeholder is inserted verbatim by the single-pass
		// variable substitution; only directive syntax in it is re-scanned by the later passes
		// (with inheritance the variable pass runs once per level, so even that is substituted again)
		if sv, ok := v.(string); ok && !cc.Child && !strings.Contains(sv, "{{#") && !strings.Contains(sv, "{{/") && !strings.Contains(sv, "{{else") && !strings.Contains(sv, "{{this") && !strings.Contains(sv, "{{@") {
			continue
		}
		synt = synt || valuesHaveSyntax(v)
	}
	for _, l := range cc.Data.Lists {
		synt = synt || valuesHaveSyntax(l)
	}
	switch {
	case synt:
		sfx = ":a-value-contains-template-syntax"
	case hasLoopVarInNested(cc.Tmpl, 0) || hasLoopVarInNested(cc.Base, 0):
		sfx = ":loop-variable-inside-a-nested-loop"
	case nestedOverMissing(cc.Tmpl, cc.Data) || nestedOverMissing(cc.Base, cc.Data):
		sfx = ":nested-loop-over-a-list-the-item-lacks"
	}
	render := func(policy string, entry int) (string, string, bool) {
		simrt.InstallOrder(policy, c.OrderSeed, 0, nil)
		defer simrt.Uninstall()
		eng := document.NewTemplateEngine()
		var out string
		sig, pn := Guard(func() {
			if cc.Child {
				if _, err := eng.LoadTemplate("base", tsrc(cc.Base)); err != nil {
					out = "load-error"
					return
				}
				if cc.Mid != nil {
					if _, err := eng.LoadTemplate("mid", "{{extends \"base\"}}"+tsrc(cc.Mid)); err != nil {
						out = "load-error"
						return
					}
				}
			}
			if _, err := eng.LoadTemplate("t", src); err != nil {
				out = "load-error"
				return
			}
			var d *document.Document
			var err error
			if entry == 0 {
				d, err = eng.RenderToDocument("t", cc.Data.ToLib())
			} else {
				d, err = eng.RenderTemplateToDocument("t", cc.Data.ToLib())
			}
			if err != nil || d == nil {
				out = "render-error"
				return
			}
			out = docText(d)
		})
		return out, sig, pn
	}
	got, sig, pn := render(c.Order, op.Int(0))
	if pn {
		return []sim.Violation{{Clause: "panic", Sig: sig, Detail: "rendering panicked"}}
	}
	env.Log.Event("out %s", sim.Digest([]byte(got)))
	if got != "" {
		env.Stats.Probe("nonempty_output")
	}
	if got == "load-error" || got == "render-error" {
		return []sim.Violation{{Clause: "render-failed", Sig: got + sfx, Detail: "a well-formed template failed to load or render"}}
	}
	if got != want {
		sg := classifyTextDiff(want, got)
		if sfx != "" {
			sg = sfx[1:] // the precondition of a listed finding identifies it; the shape of the difference varies with the input
		}
		if sfx == ":nested-loop-over-a-list-the-item-lacks" {
			// that finding has one symptom: the nested directive (with its body) is left in the output where the reference renders
			// nothing. With those left-over blocks taken out the output must be the reference; anything else that happens to such an
			// item (another item's lines, say) is not that finding.
			exp := map[string]int{}
			missingNestedCounts(tree, cc.Data, exp)
			stripped := got
			for _, name := range sim.SortedKeys(exp) {
				re := regexp.MustCompile(`(?s)\{\{#each ` + regexp.QuoteMeta(name) + `\}\}.*?\{\{/each\}\}`)
				stripped = re.ReplaceAllString(stripped, "")
			}
			if normLines(stripped) != want {
				sg = "nested-loop-over-a-list-the-item-lacks:more-than-the-directive-left-in-the-output"
			}
		}
		return []sim.Violation{{Clause: "differs-from-reference", Sig: sg,
			Detail: fmt.Sprintf("template %q\ndata %s\nreference %q\nrendered  %q", clip(tsrc(cc.Base)+" | "+src), clip(cc.Data.JSON()), clipAround(want, got), clipAround(got, want))}}
	}
	// order independence and entry-point agreement (metamorphic: needs no model)
	for _, alt := range []struct {
		policy string
		entry  int
	}{{"reverse", op.Int(0)}, {c.Order, 1 - op.Int(0)}} {
		g2, _, pn2 := render(alt.policy, alt.entry)
		if pn2 || g2 != got {
			cls := "entry-points-differ"
			if alt.entry == op.Int(0) {
				cls = "depends-on-map-order"
			}
			sg := "output"
			if sfx != "" {
				sg = sfx[1:]
			}
			return []sim.Violation{{Clause: cls, Sig: sg, Detail: fmt.Sprintf("order %s entry %d gives %q, order %s entry %d gives %q", c.Order, op.Int(0), clip(got), alt.policy, alt.entry, clip(g2))}}
		}
	}
	return nil
}

// classifyTextDiff names the kind of difference between reference and output.
func classifyTextDiff(want, got string) string {
	switch {
	case strings.Contains(got, "{{else}}") || strings.Contains(got, "{{/if}}") || strings.Contains(got, "{{#if"):
		return "conditional-left-in-output"
	case strings.Contains(got, "{{/each}}") || strings.Contains(got, "{{#each"):
		return "loop-left-in-output"
	case len(got) < len(want):
		return "text-missing"
	case len(got) > len(want):
		return "text-extra"
	}
	return "text-changed"
}

func (c16) Witnesses() []*sim.Case {
	mk := func(note string, tmpl []*TNode, data *TData) *sim.Case {
		b, _ := json.Marshal(&c16case{Tmpl: tmpl, Data: data})
		return &sim.Case{Prop: "C16", Lane: "B", Note: note, Order: "sorted", Cfg: map[string]int{}, Tasks: [][]sim.Op{{{K: "c16", S: []sim.Str{sim.Str(b)}, I: []int{0}}}}}
	}
	lit := func(s string) *TNode { return &TNode{Kind: "lit", Text: s} }
	return []*sim.Case{
		mk("else-branch-always-empty (fixed)", []*TNode{{Kind: "if", Name: "c1", Kids: []*TNode{lit("yes")}, HasE: true, Else: []*TNode{lit("no")}}, lit(" end")},
			&TData{Conds: map[string]bool{"c1": false}}),
		mk("values-are-rescanned: a value that names another variable", []*TNode{lit("A "), {Kind: "var", Name: "v1"}, lit(" B")},
			&TData{Vars: map[string]any{"v1": "{{#if c1}}X{{/if}}", "name": "N"}, Conds: map[string]bool{"c1": true}}),
		mk("values-are-rescanned: item field value substituted again depending on map order", []*TNode{{Kind: "each", Name: "items", Kids: []*TNode{lit("["), {Kind: "field", Name: "f2"}, lit("]")}}},
			&TData{Lists: map[string][]any{"items": {map[string]any{"f2": "{{f1}}", "f1": "X"}}}}),
		mk("nested-loop-over-missing-list-left-in-output", []*TNode{{Kind: "each", Name: "items", Kids: []*TNode{lit("<"), {Kind: "each", Name: "subs", Kids: []*TNode{lit("x")}}, lit(">")}}},
			&TData{Lists: map[string][]any{"items": {map[string]any{"f1": "a"}, map[string]any{"subs": []any{"c"}}}}}),
		mk("nested-loop-gets-outer-index", []*TNode{{Kind: "each", Name: "items", Kids: []*TNode{lit("<"), {Kind: "each", Name: "subs", Kids: []*TNode{{Kind: "index"}, lit(",")}}, lit(">")}}},
			&TData{Lists: map[string][]any{"items": {map[string]any{"subs": []any{"a", "b"}}, map[string]any{"subs": []any{"c"}}}}}),
	}
}

// clipAround shows a around the first position where it differs from b.
func clipAround(a, b string) string {
	i := 0
	for i < len(a) && i < len(b) && a[i] == b[i] {
		i++
	}
	from := i - 40
	if from < 0 {
		from = 0
	}
	for from > 0 && a[from]&0xC0 == 0x80 {
		from--
	}
	to := i + 60
	if to > len(a) {
		to = len(a)
	}
	for to < len(a) && a[to]&0xC0 == 0x80 {
		to++
	}
	return "…" + a[from:to] + "…"
}

func sortedKeysS2[V any](m map[string]V) []string { return sim.SortedKeys(m) }
