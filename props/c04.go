package props

import (
	"bytes"
	"fmt"
	"regexp"
	"sort"
	"strings"

	"verif/foreign"
	"verif/inspect"
	"verif/sim"
	"verif/world"
)

// C04 — opening and re-saving an existing package is non-destructive.
//
// The second party of the simulation is another producer (package foreign);
// the persistence boundary is crossed with its bytes, edits are applied, and
// every save event is compared with what the producer wrote.
type c04 struct{}

func init() { Register(c04{}) }

func (c04) ID() string     { return "C04" }
func (c04) Flavor() string { return "instr" }
func (c04) Runs(tier string) int {
	if tier == "thorough" {
		return 120000
	}
	return 5000
}

func (c04) Describe() Description {
	return Description{
		Rule: "one case = a package written by the independent foreign producer (seeded feature set: arbitrary namespace prefixes, theme/fontTable/settings/webSettings/customXml with own " +
			"relationships, numbering, comments, headers/footers with their own .rels and media, external hyperlinks, runs nested in hyperlink/smartTag/ins/sdt/fldSimple, media named " +
			"image1.png / image007.png / picture.png / IMAGE2.PNG / image3.png.bak / non-ASCII / photo.jpg, sparse or odd relationship ids, upper-case extension defaults) opened through " +
			"one of three paths, then an edit sequence (none / paragraphs / 1-3 images / header or footer / list item / note / page margins / style / paragraph removal / properties), " +
			"save events through both entry points, document restarts and further edits. Oracle at EVERY save event against the producer's bytes: (1) every part that no applied edit " +
			"regenerates is present under the same name with identical bytes and the same resolved content type; (2) every original relationship of every .rels keeps id, type, target " +
			"and mode; (3) new media neither reuse an existing media name nor change existing media bytes; (4) every run text the producer wrote is still in the main part. " +
			"Non-trivial = the package has >= 1 extra part or nested run or media and >= 1 save event; distinct = distinct event-log fingerprints.",
		Assumptions: []string{"an edit that sets a header/footer, list, note, property or setting may regenerate the part of that kind (headers, numbering, notes, settings, docProps); those parts are then exempt from byte equality for that case"},
		RealVsStub:  map[string]string{"real": "Open/OpenFromMemory, all editing calls, Save/ToBytes", "stub": "the foreign producer is simulator code; map iteration order"},
	}
}

func (c04) Nontrivial(c *sim.Case, st *sim.Stats) bool {
	return st.Probes["foreign_opened"] > 0 && st.Probes["save_events"] > 0 && c.C("features") != 0
}

func (c04) Gen(r *sim.Rand, c *sim.Case, tier string) {
	flags := int(r.Uint64()) & foreign.FAllBits
	// (runs nested in hyperlink/smartTag/ins/sdt/fldSimple were kept out of the search lane while their loss was a listed finding;
	// repaired in repo 9dca3b0, the witnesses stay as regression cases)
	c.Cfg["features"] = flags
	ops := []sim.Op{{K: "foreign", I: []int{int(r.Uint64() >> 40), flags, r.Intn(3)}}}
	g := world.NewGen(r)
	g.Extra = true
	g.Alpha = []int{0, 4}
	g.Fam = world.FBody
	for _, f := range []int{world.FImage, world.FHF, world.FList, world.FNote, world.FPage, world.FStyle, world.FRemove, world.FProp, world.FParaFmt, world.FTable} {
		if r.Chance(0.35) {
			g.Fam |= f
		}
	}
	g.HFOncePerKind, g.RectTablesOnly = true, true
	n := r.Intn(10)
	if r.Chance(0.2) {
		n = 0 // open and save again, nothing else
		g.Fam = 0
	}
	var edits []sim.Op
	if n > 0 {
		edits = g.DocOps(0, n)
	}
	edits = append(edits, sim.Op{K: "save", I: []int{r.Intn(2)}})
	if r.Chance(0.4) {
		edits = append(edits, sim.Op{K: "restart", I: []int{r.Intn(2), r.Intn(3)}})
		if g.Fam != 0 {
			edits = append(edits, g.DocOps(0, r.Intn(5))...)
		}
		edits = append(edits, sim.Op{K: "save", I: []int{r.Intn(2)}})
	}
	if r.Chance(0.35) {
		// the producer's file is opened a second time in the same process, after the first document was edited and saved, and saved
		// unchanged: nothing the first document did may show
		edits = append(edits, sim.Op{K: "foreign.again", D: 1, I: []int{0}}, sim.Op{K: "save", D: 1, I: []int{r.Intn(2)}})
	}
	c.Tasks = [][]sim.Op{append(ops, edits...)}
	c.Order = orderPolicy(r)
	c.OrderSeed = r.Uint64()
}

// regenerated lists the part-name prefixes an applied edit may rewrite.
func c04regenerated(kinds map[string]bool) []string {
	out := []string{"word/document.xml", "[Content_Types].xml", "_rels/.rels", "word/_rels/document.xml.rels"}
	for k := range kinds {
		switch k {
		case "hdr", "hdrpn", "fhdr":
			out = append(out, "word/header", "word/_rels/header")
		case "ftr", "ftrpn", "fftr":
			out = append(out, "word/footer", "word/_rels/footer")
		case "li", "bullet", "numbered", "t.celllist", "mllist":
			out = append(out, "word/numbering.xml")
		case "fn", "fnrun":
			out = append(out, "word/footnotes.xml")
		case "en":
			out = append(out, "word/endnotes.xml")
		case "fncfg":
			out = append(out, "word/settings.xml")
		case "prop":
			out = append(out, "docProps/")
		}
	}
	sort.Strings(out)
	return out
}

func hasAnyPrefix(s string, ps []string) bool {
	for _, p := range ps {
		if strings.HasPrefix(s, p) {
			return true
		}
	}
	return false
}

// hfKindName maps an operation's kind argument to the w:type value of the reference.
func hfKindName(k string) string {
	switch k {
	case "first", "even":
		return k
	}
	return "default"
}

// hfPartsByKind resolves the header/footer references of the main part's section settings: "hdr:<type>" / "ftr:<type>" -> part name.
func hfPartsByKind(p *inspect.Package) map[string]string {
	out := map[string]string{}
	root, err := inspect.ParseXML(p.Parts["word/document.xml"])
	if err != nil {
		return out
	}
	rels, err := p.Rels("word/_rels/document.xml.rels")
	if err != nil {
		return out
	}
	target := map[string]string{}
	for _, r := range rels {
		if r.Type == inspect.RelHdr || r.Type == inspect.RelFtr {
			target[r.ID] = r.Target
		}
	}
	for _, kind := range [][2]string{{"headerReference", "hdr:"}, {"footerReference", "ftr:"}} {
		for _, ref := range root.Find(inspect.NsW, kind[0]) {
			t := ref.Attr(inspect.NsW, "type")
			if t == "" {
				t = "default"
			}
			if tg, ok := target[ref.Attr(inspect.NsR, "id")]; ok && !strings.Contains(tg, "/") {
				out[kind[1]+t] = "word/" + tg
			}
		}
	}
	return out
}

func mainRunTexts(root *inspect.Node) map[string]int {
	m := map[string]int{}
	for _, t := range root.Find(inspect.NsW, "t") {
		m[t.InnerText()]++
	}
	return m
}

func (c04) Exec(c *sim.Case, env *Env) []sim.Violation {
	kinds := map[int]map[string]bool{}
	obs := &histObserver{}
	obs.after = func(w *world.World, op sim.Op, ds *world.Doc, o *world.Obs) {
		if kinds[ds.Slot] == nil {
			kinds[ds.Slot] = map[string]bool{}
		}
		if !o.Skipped {
			kinds[ds.Slot][op.K] = true
			switch op.K {
			case "hdr", "hdrpn", "fhdr":
				kinds[ds.Slot]["hdr:"+hfKindName(op.Str(0))] = true
			case "ftr", "ftrpn", "fftr":
				kinds[ds.Slot]["ftr:"+hfKindName(op.Str(0))] = true
			}
		}
	}
	obs.onSave = func(w *world.World, ds *world.Doc, b []byte) []sim.Violation {
		if ds.Foreign == nil {
			return nil
		}
		var out []sim.Violation
		seen := map[string]bool{}
		add := func(clause, sig, detail string) {
			if !seen[clause+sig] {
				seen[clause+sig] = true
				out = append(out, v(clause, sig, detail))
			}
		}
		base, err := inspect.ReadZip(ds.Base)
		if err != nil {
			return nil
		}
		got, err := inspect.ReadZip(b)
		if err != nil {
			return []sim.Violation{v("resave-unreadable", "zip", err.Error())}
		}
		regen := c04regenerated(kinds[ds.Slot])
		bct, _ := base.ContentTypes()
		gct, _ := got.ContentTypes()
		// header/footer parts of the opened package that serve a kind no applied edit named (and their own relationship parts): an edit
		// of another kind must leave them alone, also when the library's part name for the edited kind happens to be theirs
		protectedHF := map[string]bool{}
		stillServes := hfPartsByKind(got)
		for key, part := range hfPartsByKind(base) {
			// (only while the saved document still says that this part serves that kind: when an edit removed the section settings
			// together with the reference, nobody shows the part any more and its name is free to be used again)
			if !kinds[ds.Slot][key] && stillServes[key] == part {
				protectedHF[part] = true
				protectedHF[inspect.RelsPartFor(part)] = true
			}
		}
		for key, part := range hfPartsByKind(base) { // (a part that serves an edited kind as well is not protected)
			if kinds[ds.Slot][key] {
				delete(protectedHF, part)
				delete(protectedHF, inspect.RelsPartFor(part))
			}
		}
		// (1) pass-through parts
		for _, n := range base.SortedNames() {
			if strings.HasSuffix(n, "/") {
				continue
			}
			if hasAnyPrefix(n, regen) && !protectedHF[n] {
				if _, ok := got.Parts[n]; !ok && n != "word/document.xml" {
					add("part-lost", normPart(n), "part "+n+" of the opened package is gone")
				}
				continue
			}
			gb, ok := got.Parts[n]
			if !ok {
				add("part-lost", normPart(n), "part "+n+" of the opened package is gone after open+save")
				continue
			}
			if !bytes.Equal(gb, base.Parts[n]) {
				cls := "other"
				switch {
				case strings.HasPrefix(n, "word/media/"):
					cls = "media"
				case strings.HasSuffix(n, ".rels"):
					cls = "rels"
				case strings.HasSuffix(n, ".xml"):
					cls = "xml"
				}
				add("part-bytes-changed", cls+":"+normPart(n), fmt.Sprintf("part %s was %d bytes, is %d bytes and differs although no applied edit regenerates it", n, len(base.Parts[n]), len(gb)))
			}
			if bct != nil && gct != nil {
				t0, ok0 := bct.TypeOf(n)
				t1, ok1 := gct.TypeOf(n)
				if ok0 && (!ok1 || t0 != t1) {
					add("content-type-changed", normPart(n), fmt.Sprintf("part %s had content type %q, now %q", n, t0, t1))
				}
			}
		}
		// (2) relationships keep id, type, target, mode
		for _, rp := range base.RelsParts() {
			r0, e0 := base.Rels(rp)
			r1, e1 := got.Rels(rp)
			if e0 != nil || e1 != nil {
				continue
			}
			src, _ := inspect.SourceOfRels(rp)
			if src != "" && hasAnyPrefix(src, regen) && src != "word/document.xml" {
				continue // the source part itself was replaced by an edit
			}
			idx := map[string]inspect.Rel{}
			for _, x := range r1 {
				idx[x.ID+"\x00"+x.Type] = x
			}
			hdrEdit := kinds[ds.Slot]["hdr"] || kinds[ds.Slot]["hdrpn"] || kinds[ds.Slot]["fhdr"]
			ftrEdit := kinds[ds.Slot]["ftr"] || kinds[ds.Slot]["ftrpn"] || kinds[ds.Slot]["fftr"]
			for _, x := range r0 {
				// setting a header (footer) replaces the definition of that kind, relationship included
				if ((hdrEdit && x.Type == inspect.RelHdr) || (ftrEdit && x.Type == inspect.RelFtr)) && !protectedHF["word/"+x.Target] {
					continue
				}
				y, ok := idx[x.ID+"\x00"+x.Type]
				switch {
				case !ok:
					add("relationship-changed", normPart(rp)+":"+shortType(x.Type)+":lost-or-renumbered", fmt.Sprintf("%s: relationship %s (%s -> %s) is not there any more with that id and type", rp, x.ID, shortType(x.Type), x.Target))
				case y.Target != x.Target:
					add("relationship-changed", normPart(rp)+":"+shortType(x.Type)+":target", fmt.Sprintf("%s: %s target %q became %q", rp, x.ID, x.Target, y.Target))
				case !strings.EqualFold(y.Mode, x.Mode):
					add("relationship-changed", normPart(rp)+":"+shortType(x.Type)+":mode", fmt.Sprintf("%s: %s mode %q became %q", rp, x.ID, x.Mode, y.Mode))
				}
			}
		}
		// (3) media: covered by (1) for existing names (never overwritten); a new image must have a new name
		if n := len(ds.Images); n > 0 {
			newMedia := 0
			for _, name := range got.SortedNames() {
				if strings.HasPrefix(name, "word/media/") {
					if _, old := base.Parts[name]; !old {
						newMedia++
					}
				}
			}
			if newMedia < n {
				add("media-name-reused", "new-image-took-existing-name", fmt.Sprintf("%d images were added but only %d new media parts exist", n, newMedia))
			}
		}
		// (4) run texts of the producer survive
		if root, err := inspect.ParseXML(got.Parts["word/document.xml"]); err == nil && !destructive(kinds[ds.Slot]) {
			have := mainRunTexts(root)
			// a footnote attached to an existing run (AddFootnoteToRun) appends its reference mark "[n]" to that run's text:
			// that run is the edit's target, its text is found again under the marks
			if kinds[ds.Slot]["fnrun"] {
				for t, n := range have {
					if base := fnMarks.ReplaceAllString(t, ""); base != t {
						have[base] += n
					}
				}
			}
			for _, t := range ds.Foreign.RunTexts {
				if have[t] == 0 {
					add("run-text-lost", c04textClass(ds.Foreign, t), fmt.Sprintf("run text %q of the opened package is not in the saved main part", clip(t)))
					continue
				}
				have[t]--
			}
		}
		if len(out) > 0 && c.Lane != "B" {
			return out[:1]
		}
		return out
	}
	_, viol := runHistory(c, env, "c04", obs, nil)
	if len(viol) > 1 && c.Lane != "B" {
		viol = viol[:1]
	}
	return viol
}

var fnMarks = regexp.MustCompile(`(\[[0-9]+\])+$`)

// destructive: an applied edit legitimately removes or replaces existing text.
func destructive(kinds map[string]bool) bool {
	for _, k := range []string{"rm.para", "rm.parai", "rm.elem", "t.delcol", "t.delcols", "t.delrow", "t.delrows", "t.settext", "t.setftext",
		"t.clearcell", "t.clear", "t.clearparas", "t.mergeh", "t.mergev", "t.merger"} {
		if kinds[k] {
			return true
		}
	}
	return false
}

// c04textClass says where the producer had put a text (its tag says so).
func c04textClass(res *foreign.Result, t string) string {
	for _, k := range []string{"hyperlink", "smartTag", "ins", "sdt", "fldSimple"} {
		if strings.Contains(t, ":"+k+"⟫") {
			return "in-" + k
		}
	}
	return "plain-run"
}

func (c04) Witnesses() []*sim.Case {
	mk := func(note string, flags int, ops ...sim.Op) *sim.Case {
		all := append([]sim.Op{{K: "foreign", I: []int{11, flags, 0}}}, ops...)
		all = append(all, sim.Op{K: "save"})
		return &sim.Case{Prop: "C04", Lane: "B", Note: note, Order: "sorted", Cfg: map[string]int{"features": flags}, Tasks: [][]sim.Op{all}}
	}
	return []*sim.Case{
		mk("nested-run-text-lost: runs inside smartTag / ins / sdt / fldSimple", foreign.FNestedRuns),
		mk("nested-run-text-lost: runs inside w:hyperlink", foreign.FHyperlink),
		mk("target-mode (fixed): external hyperlink relationship keeps its mode", foreign.FHyperlink|foreign.FExtraParts, sim.Op{K: "para", S: []sim.Str{"x"}}),
	}
}
