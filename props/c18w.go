package props

import "verif/sim"

func c18Witnesses() []*sim.Case {
	mk := func(note, data string, ops ...sim.Op) *sim.Case {
		ops = append(ops, sim.Op{K: "c18.render", S: []sim.Str{sim.Str(data)}})
		return &sim.Case{Prop: "C18", Lane: "B", Note: note, Order: "sorted", Cfg: map[string]int{}, Tasks: [][]sim.Op{ops}}
	}
	para := func(t string) sim.Op { return sim.Op{K: "para", S: []sim.Str{sim.Str(t)}} }
	return []*sim.Case{
		mk("clone-drops-properties (fixed): keep-with-next, borders and a break run in untouched and substituted paragraphs", `{"v":{"name":"N"}}`,
			para("untouched"), sim.Op{K: "p.keepnext", I: []int{-1, 1}}, sim.Op{K: "p.widow", I: []int{-1, 1}}, sim.Op{K: "p.border", I: []int{-1, 15, 4, 1}, S: []sim.Str{"single", "FF0000"}},
			para("Hello {{name}}"), sim.Op{K: "p.keeplines", I: []int{-1, 1}}, sim.Op{K: "p.outline", I: []int{-1, 2}}),
		mk("rebuilt-runs-drop-break: page break run in a paragraph with a supplied placeholder", `{"v":{"name":"N"}}`,
			para("Hello {{name}}"), sim.Op{K: "p.pbreak", I: []int{-1}}),
		mk("loop-table-static-rows-not-substituted", `{"v":{"title":"T"},"l":{"items":[{"f1":"a","qty":1,"f2":"b"}]}}`,
			sim.Op{K: "t.new", I: []int{3, 3, 6000, 0, 1}, S: []sim.Str{"Item {{title}}", "Qty", "Note", "{{#each items}}{{f1}}", "{{qty}} pcs", "{{f2}}{{/each}}", "Total", "", "end"}}),
		mk("render-drops-package-relationships (fixed): a template opened from a package that declares docProps parts", `{"v":{"name":"N"}}`,
			sim.Op{K: "foreign", I: []int{15373756, 62757, 2}}, para("Hello {{name}}")),
		mk("header-value-control-character", `{"v":{"title":"x\u0001y"}}`, para("body"), sim.Op{K: "hdr", S: []sim.Str{"default", "H {{title}}"}}),
	}
}
