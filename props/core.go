// Package props holds one simulated check per claimed property. Every check
// is a generator of cases (pure function of the run's PRNG) and an executor
// (pure function of the case and the code under test).
package props

import (
	"fmt"
	"os"
	"runtime/debug"
	"sort"
	"strings"
	"verif/simrt"

	"verif/sim"
)

// Env is what a worker process gives to an execution.
// SoloObs is one observation of a document executed alone in a fresh process (isolated baseline of C07).
type SoloObs struct {
	Kind  string `json:"k"`
	Res   string `json:"r"`
	Bytes []byte `json:"b,omitempty"`
}

type Env struct {
	// SoloSlot >= 0: this process exists to execute one document of the case alone (set by the worker's "solo" command);
	// the observations go to SoloOut. SoloFresh starts such a process (nil when not available).
	SoloSlot  int
	SoloOut   *[]SoloObs
	SoloFresh func(c *sim.Case, slot int) ([]SoloObs, error)
	Stats     *sim.Stats
	Log       *sim.Log
	Tmp       string // private scratch directory of this worker process
	Tier      string
	Instr     bool          // built against the instrumented copy (map-order and lock seams present)
	Race      bool          // race detector compiled in
	RaceNew   func() string // race reports written since the previous call ("" if none)
	Record    bool          // keep a readable trace
}

// Property is one check.
type Property interface {
	ID() string
	// Flavor is the build the check needs: "instr" or "race" (instr + race detector).
	Flavor() string
	// Runs is the default number of runs for a tier.
	Runs(tier string) int
	// Gen fills in the case for run i (c.Prop, c.Seed, c.Run are set).
	Gen(r *sim.Rand, c *sim.Case, tier string)
	// Exec runs the case against the library and returns the violations of the
	// first failing step (empty = everything held).
	Exec(c *sim.Case, env *Env) []sim.Violation
	// Witnesses are the directed cases of lane B, one or more per known finding
	// (and regression cases of fixed ones).
	Witnesses() []*sim.Case
	// Nontrivial says whether an executed run counts as non-trivial.
	Nontrivial(c *sim.Case, st *sim.Stats) bool
	// Describe returns rule text for the evidence file.
	Describe() Description
}

type Description struct {
	Rule        string
	Assumptions []string
	RealVsStub  map[string]string
	Level       string
}

var registry = map[string]Property{}

func Register(p Property) { registry[p.ID()] = p }

func Get(id string) Property { return registry[id] }

func IDs() []string {
	var ids []string
	for id := range registry {
		ids = append(ids, id)
	}
	sort.Strings(ids)
	return ids
}

var stablePathProps = map[string]bool{"C01": true, "C02": true, "C03": true, "C04": true, "C08": true, "C10": true, "C11": true, "C12": true, "C13": true, "C15": true}

// ColdBase is the first case index of the cold-start lane (see cmd/check).
const ColdBase = uint64(5_000_000)

// NewCase builds the case of run i.
func NewCase(p Property, verifSeed, i uint64, tier string) *sim.Case {
	c := &sim.Case{Prop: p.ID(), Seed: verifSeed, Run: i, Lane: "A", Cfg: map[string]int{}}
	r := sim.NewRand(sim.RunSeed(verifSeed, p.ID(), i))
	p.Gen(r, c, tier)
	// the clock the library reads during this run (clock seam of the instrumented copy): steady, jumping or stuck
	if c.Cfg == nil {
		c.Cfg = map[string]int{}
	}
	if _, ok := c.Cfg["stable"]; !ok && stablePathProps[p.ID()] {
		// about a third of the single-task histories keep one file per document: every save goes over it, every open reads it
		c.Cfg["stable"] = btoiP((c.OrderSeed>>9)%3 == 0)
	}
	if i >= ColdBase {
		c.Cfg["cold"] = 1 // cold-start lane: executed in a fresh process, concurrent phase first
	}
	c.Cfg["clock"] = []int{simrt.ClockSteady, simrt.ClockSteady, simrt.ClockSteady, simrt.ClockSteady, simrt.ClockSteady, simrt.ClockSteady, simrt.ClockSteady, simrt.ClockJumps, simrt.ClockJumps, simrt.ClockStuck}[r.Intn(10)]
	return c
}

// Execute runs one case with a fresh log and statistics; panics of the
// harness itself are converted into an infrastructure error.
func Execute(p Property, c *sim.Case, env *Env) (res *sim.RunResult, infra error) {
	st := sim.NewStats()
	lg := &sim.Log{On: env.Record}
	e := *env
	e.Stats, e.Log = st, lg
	defer func() {
		if r := recover(); r != nil {
			infra = fmt.Errorf("harness panic: %v\n%s", r, debug.Stack())
		}
	}()
	// one simulated clock per run (policy from the case; cases without the key - witnesses, old replay files - get the steady clock)
	simrt.InstallClock(c.Seed^(c.Run*0x9E3779B97F4A7C15)^0xC10C, c.C("clock"))
	v := p.Exec(c, &e)
	st.ProbeN("clock_reads", simrt.ClockReads())
	if c.C("clock") == simrt.ClockJumps && simrt.ClockReads() > 0 {
		st.Fault("clock-jump")
	}
	if c.C("clock") == simrt.ClockStuck && simrt.ClockReads() > 0 {
		st.Fault("clock-stuck")
	}
	for i := range v {
		v[i].Prop = p.ID()
	}
	res = &sim.RunResult{Viol: v, Stats: st, FP: lg.Fingerprint(), Nontrivial: p.Nontrivial(c, st)}
	if env.Record {
		res.Trace = lg.Rec
	}
	return res, nil
}

// PanicSig turns a recovered panic and its stack into an input-independent
// signature: panic class @ innermost library function.
func PanicSig(r any, stack []byte) string {
	msg := fmt.Sprint(r)
	class := msg
	switch {
	case strings.Contains(msg, "index out of range"):
		class = "index-out-of-range"
	case strings.Contains(msg, "slice bounds out of range"):
		class = "slice-bounds"
	case strings.Contains(msg, "nil pointer dereference"):
		class = "nil-deref"
	case strings.Contains(msg, "nil map"):
		class = "nil-map-write"
	case strings.Contains(msg, "interface conversion"):
		class = "bad-type-assertion"
	case strings.Contains(msg, "divide by zero"):
		class = "div-by-zero"
	default:
		if len(class) > 40 {
			class = class[:40]
		}
	}
	return class + "@" + InnermostLibFrame(stack)
}

// InnermostLibFrame finds the first frame of the library in a stack dump.
func InnermostLibFrame(stack []byte) string {
	for _, line := range strings.Split(string(stack), "\n") {
		line = strings.TrimSpace(line)
		if !strings.HasPrefix(line, "github.com/zerx-lab/wordZero/pkg/") {
			continue
		}
		if strings.Contains(line, "/pkg/verifrt.") {
			continue
		}
		f := strings.TrimPrefix(line, "github.com/zerx-lab/wordZero/pkg/")
		for i := 0; i < len(f); i++ {
			if f[i] == '(' && !(i+1 < len(f) && f[i+1] == '*') {
				f = f[:i] // cut the argument list, keep "(*T)" receivers
				break
			}
		}
		return f
	}
	return "?"
}

// Guard calls f and converts a panic into (sig, true).
func Guard(f func()) (sig string, panicked bool) {
	defer func() {
		if r := recover(); r != nil {
			sig = PanicSig(r, debug.Stack())
			panicked = true
		}
	}()
	f()
	return "", false
}

// MkTmp returns a fresh private directory below env.Tmp.
func (e *Env) MkTmp(name string) string {
	d := e.Tmp + "/" + name
	_ = os.RemoveAll(d)
	_ = os.MkdirAll(d, 0o755)
	return d
}
