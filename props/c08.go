package props

import (
	"fmt"
	"strings"

	"github.com/zerx-lab/wordZero/pkg/document"

	"verif/inspect"
	"verif/sim"
	"verif/world"
)

// C08 — body editing behaves like an ordered list of elements.
//
// Step-by-step refinement against a list model, inside the restart
// simulation: the body that comes back from a reopen (section settings
// re-read wherever they were written) is edited further.
type c08 struct{}

func init() { Register(c08{}) }

func (c08) ID() string     { return "C08" }
func (c08) Flavor() string { return "instr" }
func (c08) Runs(tier string) int {
	if tier == "thorough" {
		return 300000
	}
	return 8000
}

func (c08) Describe() Description {
	return Description{
		Rule: "one case = a seeded history of appends (paragraph, formatted paragraph, heading, table, page break, image, list item, foot/endnote), removals by handle (live, stale, foreign, nil), by " +
			"paragraph index and by element index (in range, at the bounds, negative, too large), page-setting and header/footer calls at arbitrary positions (they create the section " +
			"settings element wherever the list currently ends), paragraph formatting calls, save events and document restarts at arbitrary positions. Reference model = a slice of " +
			"element records; after EVERY operation Body.Elements (projected through the unique text tags and handle identity), GetParagraphs and GetTables equal the model, removal " +
			"results equal the model's, a failing removal changes nothing; at every save the children of w:body (independent parser) are the model's elements in order with exactly one " +
			"w:sectPr, last, if the model has section settings. Non-trivial = >= 2 appends, >= 1 removal attempt and >= 1 save; distinct = distinct fingerprints.",
		Assumptions: []string{"a page-setting call that is rejected may or may not have created the (empty) section settings element first: the model follows the implementation in that one case",
			"reading page settings creates the section settings element (found-or-created); the model treats GetPageSettings like a page-setting call"},
		RealVsStub: map[string]string{"real": "document body API, writer, reader", "stub": "map iteration order"},
	}
}

func (c08) Nontrivial(c *sim.Case, st *sim.Stats) bool {
	app := st.Ops["para"] + st.Ops["fpara"] + st.Ops["heading"] + st.Ops["t.new"] + st.Ops["pbreak"] + st.Ops["img"] + st.Ops["li"] + st.Ops["fn"] + st.Ops["en"]
	rm := st.Ops["rm.para"] + st.Ops["rm.parai"] + st.Ops["rm.elem"]
	return app >= 2 && rm >= 1 && st.Probes["save_events"] >= 1
}

func (c08) Gen(r *sim.Rand, c *sim.Case, tier string) {
	g := world.NewGen(r)
	g.Alpha = []int{0}
	if r.Chance(0.3) {
		g.Alpha = append(g.Alpha, 4)
	}
	g.Fam = world.FBody | world.FRemove
	for _, f := range []int{world.FTable, world.FImage, world.FList, world.FNote, world.FPage, world.FHF, world.FParaFmt} {
		if r.Chance(0.5) {
			g.Fam |= f
		}
	}
	g.NoAddText, g.TableNewOnly, g.NoCellImage, g.HFOncePerKind, g.NoJPGName = true, true, true, true, true
	ops := g.DocOps(0, r.Range(4, 50))
	// removals are the point: make them frequent
	var out []sim.Op
	for _, op := range ops {
		out = append(out, op)
		if r.Chance(0.25) {
			switch r.Intn(3) {
			case 0:
				out = append(out, sim.Op{K: "rm.para", I: []int{r.Intn(64), []int{0, 0, 0, 0, 1, 2}[r.Intn(6)]}})
			case 1:
				out = append(out, sim.Op{K: "rm.parai", I: []int{r.Range(-2, 14)}})
			default:
				out = append(out, sim.Op{K: "rm.elem", I: []int{r.Range(-2, 16)}})
			}
		}
		if r.Chance(0.05) {
			out = append(out, sim.Op{K: "pg.get"})
		}
	}
	out = sprinkleSaves(r, out, 0, r.Range(3, 10), 0.35, 0)
	c.Tasks = [][]sim.Op{out}
	c.Order = orderPolicy(r)
	c.OrderSeed = r.Uint64()
}

type c08el struct {
	kind string // p | tbl | sect
	proj string
	ptr  any
}

type c08model struct {
	els []c08el
}

func (m *c08model) hasSect() bool {
	for _, e := range m.els {
		if e.kind == "sect" {
			return true
		}
	}
	return false
}

func paraProj(p *document.Paragraph) string {
	var sb strings.Builder
	img := false
	for i := range p.Runs {
		t := p.Runs[i].Text.Content
		if noteMarkerRe.MatchString(t) {
			t = "[#]"
		}
		sb.WriteString(t)
		if p.Runs[i].Drawing != nil {
			img = true
		}
	}
	if img {
		return "<img>" + sb.String()
	}
	return sb.String()
}

func tableProj(t *document.Table) string {
	s, err := t.GetCellText(0, 0)
	if err != nil {
		return "T:?"
	}
	return "T:" + s
}

func realProj(d *document.Document) ([]c08el, string) {
	var out []c08el
	for _, e := range d.Body.Elements {
		switch x := e.(type) {
		case *document.Paragraph:
			out = append(out, c08el{"p", paraProj(x), x})
		case *document.Table:
			out = append(out, c08el{"tbl", tableProj(x), x})
		case *document.SectionProperties:
			out = append(out, c08el{"sect", "<sect>", x})
		default:
			out = append(out, c08el{"other", fmt.Sprintf("%T", e), e})
		}
	}
	var sb strings.Builder
	for _, e := range out {
		sb.WriteString(e.kind + ":" + e.proj + "|")
	}
	return out, sb.String()
}

func (m *c08model) String() string {
	var sb strings.Builder
	for _, e := range m.els {
		sb.WriteString(e.kind + ":" + e.proj + "|")
	}
	return sb.String()
}

var c08sectOps = map[string]bool{"pg.size": true, "pg.custom": true, "pg.orient": true, "pg.margins": true, "pg.hfdist": true, "pg.gutter": true, "pg.grid": true,
	"pg.cleargrid": true, "pg.set": true, "pg.get": true, "hdr": true, "ftr": true, "hdrpn": true, "ftrpn": true, "fhdr": true, "fftr": true, "difffirst": true}

func (c08) Exec(c *sim.Case, env *Env) []sim.Violation {
	m := &c08model{}
	obs := &histObserver{panics: true}
	obs.after = func(w *world.World, op sim.Op, ds *world.Doc, o *world.Obs) {
		if ds.Dead || ds.D == nil || ds.D.Body == nil || o.Skipped {
			return
		}
		real, realStr := realProj(ds.D)
		lastPara := func() any {
			if n := len(ds.Paras); n > 0 {
				return ds.Paras[n-1]
			}
			return nil
		}
		expectRes := ""
		switch op.K {
		case "para", "fpara", "heading", "headingbm":
			m.els = append(m.els, c08el{"p", op.Str(0), lastPara()})
		case "li":
			if o.Res != "nil" {
				m.els = append(m.els, c08el{"p", op.Str(0), lastPara()})
			}
		case "pbreak":
			m.els = append(m.els, c08el{"p", "", nil})
		case "img":
			if o.Err == nil {
				m.els = append(m.els, c08el{"p", "<img>", nil})
			}
		case "fn", "en":
			if o.Err == nil {
				m.els = append(m.els, c08el{"p", op.Str(0) + "[#]", nil})
			}
		case "t.new":
			if o.Err == nil && len(ds.Tables) > 0 {
				t := ds.Tables[len(ds.Tables)-1]
				m.els = append(m.els, c08el{"tbl", tableProj(t), t})
			}
		case "rm.para":
			expectRes = "false"
			if op.Int(1) == 0 {
				if j := len(ds.Paras); j > 0 {
					idx := op.Int(0) % j
					if idx < 0 {
						idx += j
					}
					target := any(ds.Paras[idx])
					for i, e := range m.els {
						if e.kind == "p" && e.ptr == target {
							m.els = append(m.els[:i:i], m.els[i+1:]...)
							expectRes = "true"
							break
						}
					}
				}
			}
		case "rm.parai":
			expectRes = "false"
			k := 0
			for i, e := range m.els {
				if e.kind == "p" {
					if k == op.Int(0) {
						m.els = append(m.els[:i:i], m.els[i+1:]...)
						expectRes = "true"
						break
					}
					k++
				}
			}
		case "rm.elem":
			expectRes = "false"
			if i := op.Int(0); i >= 0 && i < len(m.els) {
				m.els = append(m.els[:i:i], m.els[i+1:]...)
				expectRes = "true"
			}
		case "restart":
			if o.Res != "ok" {
				return
			}
			// the writer hoists the section settings to the end; the reader puts them where it finds them
			var rest []c08el
			var sect []c08el
			for _, e := range m.els {
				if e.kind == "sect" {
					sect = append(sect, e)
				} else {
					rest = append(rest, e)
				}
			}
			m.els = append(rest, sect...)
			// handles were dropped: identities are re-assigned in order
			pi, ti := 0, 0
			ps, ts := ds.D.Body.GetParagraphs(), ds.D.Body.GetTables()
			for i := range m.els {
				switch m.els[i].kind {
				case "p":
					if pi < len(ps) {
						m.els[i].ptr = ps[pi]
					}
					pi++
				case "tbl":
					if ti < len(ts) {
						m.els[i].ptr = ts[ti]
					}
					ti++
				}
			}
		default:
			if c08sectOps[op.K] && !m.hasSect() {
				realHas := len(real) > 0 && real[len(real)-1].kind == "sect"
				if o.Err == nil || realHas {
					m.els = append(m.els, c08el{"sect", "<sect>", nil})
				}
			}
		}
		if expectRes != "" && o.Res != expectRes {
			w.Fail("removal-result", op.K+":"+expectRes+"-expected", fmt.Sprintf("%s%v returned %s, the list model says %s (model %s)", op.K, op.I, o.Res, expectRes, clip(m.String())))
			return
		}
		// compare the lists
		if len(real) != len(m.els) {
			w.Fail("list-model", op.K+":length", fmt.Sprintf("after %s%v the body has %d elements, the model %d\n body  %s\n model %s", op.K, op.I, len(real), len(m.els), clip(realStr), clip(m.String())))
			return
		}
		for i := range real {
			me := m.els[i]
			if real[i].kind != me.kind || real[i].proj != me.proj {
				w.Fail("list-model", op.K+":order-or-content", fmt.Sprintf("after %s%v element %d is %s:%q, the model has %s:%q", op.K, op.I, i, real[i].kind, clip(real[i].proj), me.kind, clip(me.proj)))
				return
			}
			if me.ptr != nil && real[i].ptr != me.ptr {
				w.Fail("list-model", op.K+":identity", fmt.Sprintf("after %s%v element %d is another object than the one the model holds", op.K, op.I, i))
				return
			}
		}
		// the two filtered views agree with the list
		np, nt := 0, 0
		for _, e := range m.els {
			if e.kind == "p" {
				np++
			} else if e.kind == "tbl" {
				nt++
			}
		}
		if g := len(ds.D.Body.GetParagraphs()); g != np {
			w.Fail("list-model", "GetParagraphs:count", fmt.Sprintf("GetParagraphs returns %d, the model has %d paragraphs", g, np))
		} else if g := len(ds.D.Body.GetTables()); g != nt {
			w.Fail("list-model", "GetTables:count", fmt.Sprintf("GetTables returns %d, the model has %d tables", g, nt))
		}
		// ... and hold, in order, the very objects the list holds (a view that answers from an earlier state of the body has the right length after a removal and an addition)
		if gp, gt := ds.D.Body.GetParagraphs(), ds.D.Body.GetTables(); len(gp) == np && len(gt) == nt {
			pi, ti := 0, 0
			for i := range real {
				switch real[i].kind {
				case "p":
					if any(gp[pi]) != real[i].ptr {
						w.Fail("list-model", "GetParagraphs:identity", fmt.Sprintf("after %s%v GetParagraphs()[%d] is not the paragraph at element %d of the body", op.K, op.I, pi, i))
						return
					}
					pi++
				case "tbl":
					if any(gt[ti]) != real[i].ptr {
						w.Fail("list-model", "GetTables:identity", fmt.Sprintf("after %s%v GetTables()[%d] is not the table at element %d of the body", op.K, op.I, ti, i))
						return
					}
					ti++
				}
			}
		}
		w.Log.Event("model %s", sim.Digest([]byte(m.String())))
	}
	obs.onSave = func(w *world.World, ds *world.Doc, b []byte) []sim.Violation {
		pkg, err := inspect.ReadZip(b)
		if err != nil {
			return nil
		}
		root, err := inspect.ParseXML(pkg.Parts["word/document.xml"])
		if err != nil {
			return nil
		}
		var got []string
		for _, k := range root.Child(inspect.NsW, "body").Elems() {
			switch {
			case k.Is(inspect.NsW, "p"):
				var sb strings.Builder
				rs := k.Children(inspect.NsW, "r")
				img := false
				for _, r := range rs {
					t := ""
					for _, x := range r.Children(inspect.NsW, "t") {
						t += x.InnerText()
					}
					if noteMarkerRe.MatchString(t) {
						t = "[#]"
					}
					sb.WriteString(t)
					if r.Child(inspect.NsW, "drawing") != nil {
						img = true
					}
				}
				if img {
					got = append(got, "p:<img>"+sb.String())
				} else {
					got = append(got, "p:"+sb.String())
				}
			case k.Is(inspect.NsW, "tbl"):
				txt := ""
				if tc := k.Find(inspect.NsW, "tc"); len(tc) > 0 {
					if ps := tc[0].Children(inspect.NsW, "p"); len(ps) > 0 {
						for _, x := range ps[0].Find(inspect.NsW, "t") {
							txt += x.InnerText()
						}
					}
				}
				got = append(got, "tbl:T:"+txt)
			case k.Is(inspect.NsW, "sectPr"):
				got = append(got, "sect:<sect>")
			default:
				got = append(got, "other:"+k.Name())
			}
		}
		var want []string
		for _, e := range m.els {
			if e.kind != "sect" {
				want = append(want, e.kind+":"+e.proj)
			}
		}
		if m.hasSect() {
			want = append(want, "sect:<sect>")
		}
		gs, ws := strings.Join(got, "|"), strings.Join(want, "|")
		if gs == ws {
			return nil
		}
		nsect := 0
		for _, g := range got {
			if g == "sect:<sect>" {
				nsect++
			}
		}
		sig := "order-or-content"
		switch {
		case nsect > 1:
			sig = "section-settings-twice"
		case nsect == 1 && got[len(got)-1] != "sect:<sect>":
			sig = "section-settings-not-last"
		case nsect == 0 && m.hasSect():
			sig = "section-settings-missing"
		case nsect == 1 && !m.hasSect():
			sig = "section-settings-unexpected"
		case len(got) != len(want):
			sig = "length"
		}
		return []sim.Violation{v("saved-body", sig, fmt.Sprintf("children of w:body in the saved main part:\n  %s\nmodel:\n  %s", clip(gs), clip(ws)))}
	}
	_, viol := runHistory(c, env, "c08", obs, nil)
	if len(viol) > 1 {
		viol = viol[:1]
	}
	return viol
}

func (c08) Witnesses() []*sim.Case { return nil }
