package props

import (
	"verif/inspect"
	"verif/sim"
)

// hasNestedTable reports whether a main part contains a table inside a table cell.
func hasNestedTable(root *inspect.Node) bool {
	for _, tc := range root.Find(inspect.NsW, "tc") {
		for _, k := range tc.Elems() {
			if k.Is(inspect.NsW, "tbl") {
				return true
			}
		}
	}
	return false
}

func c03Witnesses() []*sim.Case {
	mk := func(note string, ops ...sim.Op) *sim.Case {
		ops = append(ops, sim.Op{K: "c3.cycle", I: []int{0, 0}}, sim.Op{K: "c3.cycle", I: []int{1, 2}})
		return &sim.Case{Prop: "C03", Lane: "B", Note: note, Order: "sorted", Cfg: map[string]int{}, Tasks: [][]sim.Op{ops}}
	}
	para := sim.Op{K: "para", S: []sim.Str{"some text"}}
	flag := func(k string) sim.Op { return sim.Op{K: k, I: []int{0, 1}} }
	img := func(pos, wrap int) sim.Op {
		return sim.Op{K: "img", I: []int{0, 8, 8, 42, 1, pos, wrap, 0}, S: []sim.Str{"a.png", "alt", "title"}, F: []float64{20, 20, 3, 4}}
	}
	return []*sim.Case{
		mk("reader drops paragraph properties it has no case for", para, flag("p.keepnext"), flag("p.keeplines"), flag("p.pbb"), flag("p.widow"), sim.Op{K: "p.snap", I: []int{0, 0}},
			sim.Op{K: "p.outline", I: []int{0, 2}}, sim.Op{K: "p.border", I: []int{0, 15, 4, 1}, S: []sim.Str{"single", "FF0000"}}),
		mk("reader drops break runs, formulas, bookmarks and content controls", para, sim.Op{K: "pbreak"}, sim.Op{K: "p.pbreak", I: []int{0}},
			sim.Op{K: "math", S: []sim.Str{"<m:r><m:t>x</m:t></m:r>"}, I: []int{1}}, sim.Op{K: "heading", S: []sim.Str{"H"}, I: []int{1}},
			sim.Op{K: "headingbm", S: []sim.Str{"HB", "bm1"}, I: []int{2}}, sim.Op{K: "toc.gen", S: []sim.Str{"Contents"}, I: []int{3, 15}}),
		mk("reader drops parts of drawings", para, img(1, 0), img(2, 2), img(3, 3), img(2, 4), img(2, 1),
			sim.Op{K: "t.new", I: []int{2, 2, 5000, 0, 0}}, sim.Op{K: "cellimg", I: []int{0, 8, 8, 43, 0, 0, 0, 0, 0, 0, 0}, S: []sim.Str{"x", "a", "t"}, F: []float64{0, 0, 0, 0}}),
		mk("reader drops section flags", para, sim.Op{K: "ftrpn", S: []sim.Str{"default", "page"}, I: []int{1}}, sim.Op{K: "difffirst", I: []int{1}}),
		mk("nested tables are read into the enclosing table", sim.Op{K: "t.new", I: []int{2, 2, 5000, 0, 1}, S: []sim.Str{"a", "b", "c", "d"}},
			sim.Op{K: "t.nested", I: []int{0, 0, 1, 2, 2, 3000, 0, 1}, S: []sim.Str{"n1", "n2", "n3", "n4"}}),
	}
}
