package props

import (
	"archive/zip"
	"bytes"
	"fmt"
	"os"
	"path/filepath"
	"sort"
	"strings"
	"syscall"

	"github.com/zerx-lab/wordZero/pkg/document"
	"github.com/zerx-lab/wordZero/pkg/verifrt"

	"verif/inspect"
	"verif/sim"
	"verif/simrt"
	"verif/world"
)

// C05 — Save reports success only for a completely written, faithful file.
//
// Fault enumeration: for each generated document the write failure point is
// enumerated over the byte offsets of the output file with RLIMIT_FSIZE (the
// kernel makes the write that crosses byte n short and the next one fail with
// EFBIG; SIGXFSZ is ignored), plus ENOSPC on /dev/full and unwritable targets.
type c05 struct{}

func init() { Register(c05{}) }

func (c05) ID() string     { return "C05" }
func (c05) Flavor() string { return "instr" }
func (c05) Runs(tier string) int {
	// one run in eight enumerates the fault points of a document; the others are histories in which every save event
	// compares the two entry points (no enumeration: milliseconds each)
	if tier == "thorough" {
		return 9600
	}
	return 640
}

// c05Enumerates says whether run i is an enumeration run (spread evenly over the worker processes, which take the indices modulo 16).
func c05Enumerates(i uint64) bool { return (i/16+i%16)%8 == 0 }

// HangSeconds: one run enumerates every byte offset of a document and may take minutes.
func (c05) HangSeconds() int { return 1800 }

func (c05) Describe() Description {
	return Description{
		Level: "fault_enumeration",
		Rule: "one case = one generated document (size class small <4KiB / medium / large with images, chosen per run) saved under a " +
			"map-order policy; the fault point n (RLIMIT_FSIZE=n around the one Save call) is enumerated over EVERY byte offset 0..L of the " +
			"fault-free output when L <= the tier's exhaustive bound (quick 12KiB, thorough 64KiB), otherwise over all offsets within 64 bytes of every ZIP " +
			"local-header/data/central-directory boundary, every 4096-byte flush boundary +-1 and 1500 PRNG-chosen offsets; plus /dev/full, " +
			"symlink-to-/dev/full, directory, path-below-file, over-long name, dangling symlink, existing longer file, nested new directories; plus, through the " +
			"file-system seam of the instrumented copy, EVERY file-system call of one Save (create directories, create file, close file: 4 error kinds each; a failing close " +
			"loses the tail of the file like a delayed-allocation or network file system) and EVERY Write call that reaches the file (failing once with 0, half or all-but-one " +
			"bytes written, later writes succeeding again), one at a time, each followed by a fault-free Save that must succeed and agree with ToBytes. " +
			"evaluations = faulted or fault-free Save calls judged; a case is non-trivial when its document has >= 3 operations and at least one " +
			"write fault actually fired (Save met a short write/EFBIG/ENOSPC); distinct = distinct run fingerprints (hash of the event log: ops, L, verdict per offset class).",
		Assumptions: []string{
			"errors reported only by close(2) are injected at the file-system seam of the instrumented copy (the kernel cannot be made to produce them here); Save never syncs and power-loss durability is not part of the statement",
			"RLIMIT_FSIZE/EFBIG and /dev/full/ENOSPC stand for every cause of a failing write(2): the library cannot tell them apart",
		},
		RealVsStub: map[string]string{
			"real": "whole library (instrumented copy: map iteration order decided by the simulator), archive/zip, os, the kernel's file system and RLIMIT_FSIZE enforcement",
			"stub": "none on the I/O path; map iteration order comes from verifrt.Keys",
		},
	}
}

func (c05) Nontrivial(c *sim.Case, st *sim.Stats) bool {
	if c.C("class") == 3 {
		return c.NOps() >= 4 && st.Probes["save_events_compared"] >= 1
	}
	return c.NOps() >= 3 && (st.Faults["W-limit"] > 0 || st.Faults["W-full"] > 0 || st.Faults["call-write"] > 0)
}

func (c05) Gen(r *sim.Rand, c *sim.Case, tier string) {
	if !c05Enumerates(c.Run) {
		// agreement lane: a history over the whole vocabulary (removals, pictures, notes, lists, restarts, now and then a second
		// document in between); at every save event Save(path) and ToBytes must agree part for part
		g := world.NewGen(r)
		g.Extra = true
		g.Alpha = []int{0, 4}
		g.Fam = world.FBody
		for f := 1; f < world.FAll; f <<= 1 {
			if r.Chance(0.4) {
				g.Fam |= f
			}
		}
		g.HFOncePerKind, g.RectTablesOnly, g.WellFormedMath = true, true, true
		ops := sprinkleSavesOpt(r, g.DocOps(0, r.Range(3, 30)), 0, r.Range(2, 6), 0.2, 0, false)
		if r.Chance(0.3) {
			g2 := world.NewGen(r.Fork())
			g2.Fam = world.FBody | world.FNote | world.FList | world.FImage
			ops = interleave(r, ops, sprinkleSavesOpt(r, g2.DocOps(1, r.Range(2, 8)), 1, 4, 0, 0, false))
		}
		c.Tasks = [][]sim.Op{ops}
		c.Order = orderPolicy(r)
		c.OrderSeed = r.Uint64()
		c.Cfg["class"] = 3
		return
	}
	g := world.NewGen(r)
	class := r.Intn(10)
	g.Alpha = []int{0, 1, 3, 4}
	g.NoJPGName = false
	g.HFOncePerKind = true
	g.RectTablesOnly = true
	n := 0
	switch {
	case class < 5: // small: everything sits in zip.Writer's buffer until Close
		g.Fam = world.FBody | world.FParaFmt
		n = r.Range(1, 5)
		c.Cfg["class"] = 0
	case class < 9: // medium
		g.Fam = world.FBody | world.FParaFmt | world.FTable | world.FHF | world.FPage | world.FList | world.FProp | world.FTableFmt
		n = r.Range(15, 60)
		c.Cfg["class"] = 1
	default: // large with images: stored data bigger than the buffer is written through
		g.Fam = world.FBody | world.FImage | world.FTable
		n = r.Range(10, 30)
		c.Cfg["class"] = 2
	}
	c.Tasks = [][]sim.Op{g.DocOps(0, n)}
	c.Order = []string{"sorted", "sorted", "reverse", "shuffle", "rotate"}[r.Intn(5)]
	c.OrderSeed = r.Uint64()
	c.Cfg["target"] = r.Intn(3) // 0 fresh file, 1 existing longer file, 2 nested new directories
	c.Cfg["bound"] = 12 << 10
	if tier == "thorough" {
		c.Cfg["bound"] = 64 << 10
	}
	c.Cfg["sample_seed"] = int(r.Uint64() >> 33)
}

// agreement executes a history; at every save event of it the document is serialised through both entry points, in one of
// the two orders, and the results must hold the same parts byte for byte.
func (p c05) agreement(c *sim.Case, w *world.World, dir string, env *Env) []sim.Violation {
	n := 0
	for _, op := range c.Tasks[0] {
		if op.K != "save" {
			if o := w.Apply(op); o.Panic != "" {
				return nil // a panic while editing is some other property's finding
			}
			continue
		}
		ds := w.Doc(op.D)
		if ds.Dead || ds.D == nil {
			continue
		}
		n++
		path := filepath.Join(dir, fmt.Sprintf("agree%d.docx", n))
		var tb, sb []byte
		var e1, e2 error
		order := "tobytes-then-save"
		sig, pn := Guard(func() {
			if op.Int(0) == 0 {
				tb, e1 = ds.D.ToBytes()
				e2 = ds.D.Save(path)
			} else {
				order = "save-then-tobytes"
				e2 = ds.D.Save(path)
				tb, e1 = ds.D.ToBytes()
			}
		})
		if pn {
			return []sim.Violation{{Clause: "panic", Sig: sig, Detail: "a save panicked"}}
		}
		sb, _ = os.ReadFile(path)
		os.Remove(path)
		env.Stats.Probe("save_events_compared")
		if (e1 == nil) != (e2 == nil) {
			return []sim.Violation{{Clause: "save-vs-tobytes", Sig: "history:one-fails", Detail: fmt.Sprintf("save event %d (%s): ToBytes says %v, Save says %v", n, order, e1, e2)}}
		}
		if e1 != nil {
			continue
		}
		if ok, why := sameParts(sb, tb); !ok {
			return []sim.Violation{{Clause: "save-vs-tobytes", Sig: "history:" + order, Detail: fmt.Sprintf("save event %d of the history (%s): %s", n, order, why)}}
		}
	}
	return nil
}

var sigxfszIgnored bool

// SetFsizeLimit lowers the soft RLIMIT_FSIZE; returns a restore function.
func setFsizeLimit(n int64) (restore func(), err error) {
	var old syscall.Rlimit
	if err := syscall.Getrlimit(1 /* RLIMIT_FSIZE */, &old); err != nil {
		return nil, err
	}
	lim := old
	lim.Cur = uint64(n)
	if err := syscall.Setrlimit(1, &lim); err != nil {
		return nil, err
	}
	return func() { _ = syscall.Setrlimit(1, &old) }, nil
}

// sameParts compares two packages part for part, byte for byte.
func sameParts(got, want []byte) (bool, string) {
	pg, err := inspect.ReadZip(got)
	if err != nil {
		return false, "unreadable: " + err.Error()
	}
	pw, err := inspect.ReadZip(want)
	if err != nil {
		return false, "reference unreadable: " + err.Error()
	}
	if len(pg.Dup) > 0 {
		return false, "duplicate entries " + strings.Join(pg.Dup, ",")
	}
	gn, wn := pg.SortedNames(), pw.SortedNames()
	if strings.Join(gn, "\n") != strings.Join(wn, "\n") {
		return false, fmt.Sprintf("part sets differ: file %v vs ToBytes %v", gn, wn)
	}
	for _, n := range wn {
		if !bytes.Equal(pg.Parts[n], pw.Parts[n]) {
			return false, "part " + n + " differs"
		}
	}
	return true, ""
}

// zipBoundaries returns the offsets at which the structure of the archive changes.
func zipBoundaries(b []byte) []int64 {
	var out []int64
	zr, err := zip.NewReader(bytes.NewReader(b), int64(len(b)))
	if err != nil {
		return nil
	}
	var lastEnd int64
	for _, f := range zr.File {
		if off, err := f.DataOffset(); err == nil {
			hdr := off - int64(30+len(f.Name)+len(f.Extra))
			out = append(out, hdr, off, off+int64(f.CompressedSize64))
			if e := off + int64(f.CompressedSize64) + 16; e > lastEnd {
				lastEnd = e
			}
		}
	}
	out = append(out, lastEnd, int64(len(b))-22, int64(len(b)))
	return out
}

func (p c05) Exec(c *sim.Case, env *Env) []sim.Violation {
	if !sigxfszIgnored {
		ignoreSIGXFSZ()
		sigxfszIgnored = true
	}
	document.VerifResetProcessState()
	ord := simrt.InstallOrder(c.Order, c.OrderSeed, 0, nil)
	defer simrt.Uninstall()
	dir := env.MkTmp("c05")
	defer os.RemoveAll(dir)
	w := world.New(env.Stats, env.Log, dir)
	if c.C("class") == 3 {
		return p.agreement(c, w, dir, env)
	}
	w.Run(c.Tasks[0])
	ds := w.Doc(0)
	if ds.Dead {
		return nil
	}
	var viol []sim.Violation
	fail := func(clause, sig, detail string) []sim.Violation {
		viol = append(viol, sim.Violation{Clause: clause, Sig: sig, Detail: detail})
		return viol
	}
	d := ds.D
	var ref []byte
	if sig, pn := Guard(func() { ref, _ = d.ToBytes() }); pn {
		return fail("panic", sig, "ToBytes panicked")
	}
	if ref == nil {
		return nil // serialisation itself fails: not this property's business
	}

	// ---- fault-free lanes: the two entry points never disagree, in any order of use
	ff := filepath.Join(dir, "ff.docx")
	var err error
	if sig, pn := Guard(func() { err = d.Save(ff) }); pn {
		return fail("panic", sig, "Save panicked")
	}
	if err != nil {
		return fail("spurious-error", "fault-free-save-failed", err.Error())
	}
	fb, _ := os.ReadFile(ff)
	after, _ := d.ToBytes()
	if ok, why := sameParts(fb, after); !ok {
		return fail("save-vs-tobytes", "save-then-tobytes", why)
	}
	if ok, why := sameParts(fb, ref); !ok {
		return fail("save-vs-tobytes", "tobytes-then-save", why)
	}
	ff2 := filepath.Join(dir, "ff2.docx")
	if err := d.Save(ff2); err != nil {
		return fail("spurious-error", "second-save-failed", err.Error())
	}
	fb2, _ := os.ReadFile(ff2)
	if ok, why := sameParts(fb2, fb); !ok {
		return fail("save-vs-tobytes", "save-then-save", why)
	}
	env.Stats.ProbeN("evaluations", 3)
	// ---- the same after late edits of parts other than the body (whatever ToBytes or Save remember from
	//      earlier calls must not make them disagree now)
	for i, edit := range []func() error{
		func() error { return d.SetTitle(fmt.Sprintf("late title %d", c.Run)) },
		func() error { return d.SetPageMargins(11, 12, 13, 14) },
		func() error {
			d.GetStyleManager().CreateCustomStyle("LateStyle", "late", "paragraph", "Normal")
			return nil
		},
	} {
		if c.C("offset_set") != 0 {
			break
		}
		if sig, pn := Guard(func() { _ = edit() }); pn {
			return fail("panic", sig, "a late edit panicked")
		}
		tb, err1 := d.ToBytes()
		lp := filepath.Join(dir, fmt.Sprintf("late%d.docx", i))
		err2 := d.Save(lp)
		sb, _ := os.ReadFile(lp)
		os.Remove(lp)
		env.Stats.Probe("evaluations")
		if err1 != nil || err2 != nil {
			continue
		}
		if ok, why := sameParts(sb, tb); !ok {
			return fail("save-vs-tobytes", "after-late-edit", fmt.Sprintf("after an edit that follows earlier ToBytes/Save calls the two entry points disagree: %s", why))
		}
		ref, fb = tb, sb
	}
	L := int64(len(fb))
	env.Log.Event("L=%d parts=%d", L, bytes.Count(fb, []byte("PK\x01\x02")))
	os.Remove(ff)
	os.Remove(ff2)

	// ---- unwritable / unusual targets
	if c.C("offset_set") == 0 {
		if v := p.targets(d, dir, ref, env); v != nil {
			return append(viol, *v)
		}
	}

	// ---- every file-system call and every Write call of one Save fails, one at a time (file-system seam of the
	//      instrumented copy): a failing create/mkdir, a Write that fails ONCE with the later ones succeeding again
	//      (the size limit below cannot do that: it is permanent), and a close(2) that reports lost delayed writes
	if c.C("offset_set") == 0 || c.C("call_set") != 0 {
		if v := p.callFaults(c, d, dir, env); v != nil {
			return append(viol, *v)
		}
		if c.C("call_set") != 0 {
			return viol
		}
	}

	// ---- enumerate the fault point
	var offsets []int64
	exhaustive := false
	switch {
	case c.C("offset_set") != 0:
		n := int64(c.C("offset"))
		if c.C("clamp") != 0 && n >= L {
			n = L - 1 // the document got smaller under minimisation: keep the fault inside the output
		}
		offsets = []int64{n}
	case L <= int64(c.C("bound")):
		exhaustive = true
		for n := int64(0); n <= L+2; n++ {
			offsets = append(offsets, n)
		}
	default:
		seen := map[int64]bool{}
		add := func(n int64) {
			if n >= 0 && n <= L+2 && !seen[n] {
				seen[n] = true
				offsets = append(offsets, n)
			}
		}
		for n := int64(0); n < 512; n++ {
			add(n)
		}
		for _, b := range zipBoundaries(fb) {
			for k := int64(-64); k <= 64; k++ {
				add(b + k)
			}
		}
		for n := int64(4096); n <= L; n += 4096 {
			add(n - 1)
			add(n)
			add(n + 1)
		}
		rs := sim.NewRand(uint64(c.C("sample_seed")))
		for i := 0; i < 1500; i++ {
			add(int64(rs.Intn(int(L) + 1)))
		}
		sort.Slice(offsets, func(i, j int) bool { return offsets[i] < offsets[j] })
	}
	if exhaustive {
		env.Stats.Probe("docs_exhaustive")
		env.Stats.ProbeN("bytes_enumerated", L)
	} else if c.C("offset_set") == 0 {
		env.Stats.Probe("docs_boundary_sampled")
	}
	target := filepath.Join(dir, "out.docx")
	switch c.C("target") {
	case 2:
		target = filepath.Join(dir, "new", "nested", "dirs", "out.docx")
	}
	// the file that target=1 finds in place: a valid package, longer than the new one
	older := olderVersion(fb)
	if c.C("target") == 1 && c.C("offset_set") == 0 {
		// fault-free overwrite of the longer existing file
		_ = os.MkdirAll(filepath.Dir(target), 0o755)
		_ = os.WriteFile(target, older, 0o644)
		if err := d.Save(target); err != nil {
			return fail("spurious-error", "overwrite-existing-failed", err.Error())
		}
		got, _ := os.ReadFile(target)
		now, _ := d.ToBytes()
		env.Stats.Probe("evaluations")
		if ok, why := sameParts(got, now); !ok {
			return fail("nil-on-fault", "overwrite-existing:"+map[bool]string{true: "readable-but-different", false: "damaged-file"}[readable(got)], "Save over an existing longer file returned nil: "+why)
		}
		if !endsAtEOCD(got) {
			return fail("nil-on-fault", "overwrite-existing:trailing-bytes", fmt.Sprintf("Save over an existing longer file returned nil but the file (%d bytes) does not end with the end-of-central-directory record of the new package (%d bytes)", len(got), L))
		}
	}
	nilOK, errs, retries := 0, 0, 0
	for _, n := range offsets {
		if c.C("target") == 1 {
			_ = os.WriteFile(target, older, 0o644) // an earlier, longer version of the package is in the way
		} else {
			os.Remove(target)
			if c.C("target") == 2 {
				os.RemoveAll(filepath.Join(dir, "new"))
			}
		}
		restore, lerr := setFsizeLimit(n)
		if lerr != nil {
			panic("setrlimit: " + lerr.Error())
		}
		var serr error
		sig, pn := Guard(func() { serr = d.Save(target) })
		restore()
		env.Stats.Probe("evaluations")
		if pn {
			return fail("panic", sig, fmt.Sprintf("Save panicked with write failure at byte %d of %d", n, L))
		}
		got, _ := os.ReadFile(target)
		fired := int64(len(got)) < L || serr != nil
		if fired {
			env.Stats.Fault("W-limit")
		}
		if serr != nil {
			errs++
			if n >= L {
				return fail("spurious-error", "error-without-fault", fmt.Sprintf("limit %d >= output length %d yet Save failed: %v", n, L, serr))
			}
			// the caller's natural reaction to a failed Save is to free space and save again, to the same path: that second,
			// fault-free Save must leave the faithful file (every 16th offset, and always for a pinned case)
			if c.C("offset_set") != 0 || retries%16 == 0 {
				var rerr error
				sig, pn := Guard(func() { rerr = d.Save(target) })
				env.Stats.Probe("evaluations")
				env.Stats.Probe("retries_after_failed_save")
				pin := func() {
					if c.C("offset_set") == 0 {
						c.Cfg["offset_set"], c.Cfg["offset"], c.Cfg["clamp"] = 1, int(n), 1
					}
				}
				if pn {
					pin()
					return fail("panic", sig, "Save after a failed Save panicked")
				}
				if rerr != nil {
					pin()
					return fail("spurious-error", "retry-after-failed-save", fmt.Sprintf("after a Save that failed at byte %d, a fault-free Save to the same path fails: %v", n, rerr))
				}
				got2, _ := os.ReadFile(target)
				now2, _ := d.ToBytes()
				if ok, why := sameParts(got2, now2); !ok {
					pin()
					return fail("nil-on-fault", "retry-after-failed-save:"+map[bool]string{true: "readable-but-different", false: "damaged-file"}[readable(got2)], fmt.Sprintf("a Save failed at byte %d of %d (reported); the retried Save to the same path returned nil but the file (%d bytes) is not the package: %s", n, L, len(got2), why))
				}
			}
			retries++
			continue
		}
		nilOK++
		if !endsAtEOCD(got) {
			return fail("nil-on-fault", "trailing-bytes", fmt.Sprintf("limit %d, output length %d: Save returned nil but the file (%d bytes) has bytes after the end-of-central-directory record", n, L, len(got)))
		}
		now, _ := d.ToBytes()
		if ok, why := sameParts(got, now); !ok {
			cls := "damaged-file"
			if _, zerr := inspect.ReadZip(got); zerr == nil {
				cls = "readable-but-different"
			}
			if int64(len(got)) >= L-int64(minInt(int(L), 4096)) && n < L {
				env.Stats.Probe("failure_only_at_close")
			}
			// the reported case pins the fault point so that minimisation and
			// replay execute one faulted Save instead of the whole enumeration
			if c.C("offset_set") == 0 {
				c.Cfg["offset_set"], c.Cfg["offset"], c.Cfg["clamp"] = 1, int(n), 1
			}
			return fail("nil-on-fault", cls, fmt.Sprintf("write failure at byte %d of %d: Save returned nil, file has %d bytes: %s", n, L, len(got), why))
		}
	}
	env.Log.Event("offsets=%d nil=%d err=%d exhaustive=%v ordercalls=%d", len(offsets), nilOK, errs, exhaustive, ord.Calls)
	return viol
}

var callErrnos = []syscall.Errno{syscall.EIO, syscall.ENOSPC, syscall.EACCES, syscall.EDQUOT}

// callFaults enumerates the calls of one Save: with k ranging over every file-system call (create directories,
// create file, close file) and over every Write that reaches the file, call k fails and every other call behaves.
// If Save returns nil the file must be the faithful package; afterwards a fault-free Save must succeed and agree
// with ToBytes (a failed Save leaves the document usable).
func (c05) callFaults(c *sim.Case, d *document.Document, dir string, env *Env) *sim.Violation {
	target := filepath.Join(dir, "calls", "out.docx")
	defer os.RemoveAll(filepath.Join(dir, "calls"))
	prevF, prevW := verifrt.IOFault, verifrt.WriteFault
	defer func() { verifrt.IOFault, verifrt.WriteFault = prevF, prevW }()
	// fault-free pass: count the calls
	var ioKinds []string
	nwr := 0
	verifrt.IOFault = func(kind, path string) error { ioKinds = append(ioKinds, kind); return nil }
	verifrt.WriteFault = func(n int) (int, error) { nwr++; return n, nil }
	err := d.Save(target)
	verifrt.IOFault, verifrt.WriteFault = nil, nil
	if err != nil {
		return &sim.Violation{Clause: "spurious-error", Sig: "fault-free-save-failed", Detail: err.Error()}
	}
	if len(ioKinds) == 0 && nwr == 0 {
		env.Stats.Probe("call_seam_absent") // plain build: no file-system seam
		return nil
	}
	type fp struct{ write, idx, mode int }
	var points []fp
	if c.C("call_set") != 0 {
		pt := fp{c.C("call_write"), c.C("call_idx"), c.C("call_mode")}
		if pt.write == 0 && pt.idx >= len(ioKinds) { // the document changed under minimisation: keep the fault inside the Save
			pt.idx = len(ioKinds) - 1
		}
		if pt.write == 1 && pt.idx >= nwr {
			pt.idx = nwr - 1
		}
		points = []fp{pt}
	} else {
		for k := range ioKinds {
			for m := range callErrnos {
				points = append(points, fp{0, k, m})
			}
		}
		for k := 0; k < nwr; k++ {
			for m := 0; m < 3; m++ { // 0: nothing written, 1: half of the bytes written, 2: all but one byte written
				points = append(points, fp{1, k, m})
			}
		}
	}
	for _, pt := range points {
		os.RemoveAll(filepath.Join(dir, "calls"))
		seenIO, seenW, fired := 0, 0, ""
		verifrt.IOFault = func(kind, path string) error {
			defer func() { seenIO++ }()
			if pt.write == 0 && seenIO == pt.idx {
				fired = kind
				return callErrnos[pt.mode%len(callErrnos)]
			}
			return nil
		}
		verifrt.WriteFault = func(n int) (int, error) {
			defer func() { seenW++ }()
			if pt.write == 1 && seenW == pt.idx {
				fired = "write"
				k := 0
				switch pt.mode {
				case 1:
					k = n / 2
				case 2:
					k = n - 1
				}
				return k, syscall.EIO
			}
			return n, nil
		}
		var serr error
		sig, pn := Guard(func() { serr = d.Save(target) })
		verifrt.IOFault, verifrt.WriteFault = nil, nil
		env.Stats.Probe("evaluations")
		if fired == "" {
			env.Stats.Probe("call_fault_not_reached")
			continue
		}
		env.Stats.Fault("call-" + fired)
		pin := func() {
			if c.C("call_set") == 0 {
				c.Cfg["call_set"], c.Cfg["call_write"], c.Cfg["call_idx"], c.Cfg["call_mode"], c.Cfg["offset_set"] = 1, pt.write, pt.idx, pt.mode, 1
			}
		}
		if pn {
			pin()
			return &sim.Violation{Clause: "panic", Sig: sig, Detail: fmt.Sprintf("Save panicked when its %s call failed", fired)}
		}
		if serr == nil {
			got, _ := os.ReadFile(target)
			now, _ := d.ToBytes()
			if ok, why := sameParts(got, now); !ok {
				pin()
				return &sim.Violation{Clause: "nil-on-fault", Sig: "failing-call:" + fired, Detail: fmt.Sprintf("call %d (%s) of Save failed (%v, mode %d) and Save returned nil, but the file is not the package: %s", pt.idx, fired, callErrnos[pt.mode%len(callErrnos)], pt.mode, why)}
			}
			env.Stats.Probe("call_fault_survived_faithfully")
		} else {
			env.Stats.Probe("call_fault_reported")
		}
		// the caller frees space / fixes permissions and saves again to the same path
		if serr != nil {
			var rerr error
			sig, pn = Guard(func() { rerr = d.Save(target) })
			env.Stats.Probe("retries_after_failed_save")
			if pn {
				pin()
				return &sim.Violation{Clause: "panic", Sig: sig, Detail: fmt.Sprintf("Save retried after a failed %s call panicked", fired)}
			}
			if rerr != nil {
				pin()
				return &sim.Violation{Clause: "spurious-error", Sig: "retry-after-failed-save", Detail: fmt.Sprintf("after a Save whose %s call failed, a fault-free Save to the same path fails: %v", fired, rerr)}
			}
			got, _ := os.ReadFile(target)
			now, _ := d.ToBytes()
			if ok, why := sameParts(got, now); !ok {
				pin()
				return &sim.Violation{Clause: "nil-on-fault", Sig: "retry-after-failed-save:" + fired, Detail: fmt.Sprintf("call %d (%s) of Save failed and was reported; the retried Save to the same path returned nil but the file is not the package: %s", pt.idx, fired, why)}
			}
		}
		// the document is as usable as before
		after := filepath.Join(dir, "calls", "after.docx")
		var aerr error
		sig, pn = Guard(func() { aerr = d.Save(after) })
		if pn {
			pin()
			return &sim.Violation{Clause: "panic", Sig: sig, Detail: fmt.Sprintf("Save after a failed %s call panicked", fired)}
		}
		if aerr != nil {
			pin()
			return &sim.Violation{Clause: "spurious-error", Sig: "save-after-failed-save:" + fired, Detail: fmt.Sprintf("after a Save whose %s call failed, a fault-free Save fails: %v", fired, aerr)}
		}
		got, _ := os.ReadFile(after)
		now, _ := d.ToBytes()
		if ok, why := sameParts(got, now); !ok {
			pin()
			return &sim.Violation{Clause: "save-vs-tobytes", Sig: "after-failed-save:" + fired, Detail: why}
		}
	}
	env.Stats.ProbeN("calls_enumerated", int64(len(points)))
	return nil
}

func readable(b []byte) bool {
	_, err := inspect.ReadZip(b)
	return err == nil
}

// endsAtEOCD reports whether the file ends exactly with a ZIP
// end-of-central-directory record (no stale or foreign bytes after it).
func endsAtEOCD(b []byte) bool {
	for i := len(b) - 22; i >= 0 && i >= len(b)-22-65535; i-- {
		if b[i] == 'P' && b[i+1] == 'K' && b[i+2] == 5 && b[i+3] == 6 {
			cl := int(b[i+20]) | int(b[i+21])<<8
			if i+22+cl == len(b) {
				return true
			}
		}
	}
	return false
}

// olderVersion builds a valid package that is longer than b: the same parts
// plus one more (what an earlier, bigger save of the document leaves behind).
func olderVersion(b []byte) []byte {
	pkg, err := inspect.ReadZip(b)
	if err != nil {
		return append(append([]byte{}, b...), bytes.Repeat([]byte{0xAA}, 1000)...)
	}
	names := append([]string{}, pkg.Names...)
	names = append(names, "word/removed-later.bin")
	r := sim.NewRand(uint64(len(b)))
	extra := make([]byte, 3000)
	for i := range extra {
		extra[i] = byte(r.Intn(256))
	}
	pkg.Parts["word/removed-later.bin"] = extra
	return rezip(names, pkg.Parts)
}

func minInt(a, b int) int {
	if a < b {
		return a
	}
	return b
}

// targets exercises W-full and W-target.
func (c05) targets(d *document.Document, dir string, ref []byte, env *Env) *sim.Violation {
	try := func(path string) (err error, sig string, pn bool) {
		sig, pn = Guard(func() { err = d.Save(path) })
		env.Stats.Probe("evaluations")
		return
	}
	// every write fails with ENOSPC, create succeeds
	if _, serr := os.Stat("/dev/full"); serr == nil {
		err, sig, pn := try("/dev/full")
		if pn {
			return &sim.Violation{Clause: "panic", Sig: sig, Detail: "Save(/dev/full)"}
		}
		env.Stats.Fault("W-full")
		if err == nil {
			return &sim.Violation{Clause: "nil-on-fault", Sig: "enospc-device", Detail: "Save to /dev/full (every write fails with ENOSPC) returned nil"}
		}
		link := filepath.Join(dir, "full-link.docx")
		_ = os.Symlink("/dev/full", link)
		err, sig, pn = try(link)
		os.Remove(link)
		if pn {
			return &sim.Violation{Clause: "panic", Sig: sig, Detail: "Save(symlink to /dev/full)"}
		}
		env.Stats.Fault("W-full")
		if err == nil {
			return &sim.Violation{Clause: "nil-on-fault", Sig: "enospc-device", Detail: "Save through a symlink to /dev/full returned nil"}
		}
	}
	bad := map[string]string{}
	isdir := filepath.Join(dir, "isdir.docx")
	_ = os.MkdirAll(isdir, 0o755)
	bad["existing-directory"] = isdir
	reg := filepath.Join(dir, "regular")
	_ = os.WriteFile(reg, []byte("x"), 0o644)
	bad["below-regular-file"] = filepath.Join(reg, "sub", "out.docx")
	bad["name-too-long"] = filepath.Join(dir, strings.Repeat("n", 300)+".docx")
	for _, k := range sim.SortedKeys(bad) {
		err, sig, pn := try(bad[k])
		env.Stats.Fault("W-target")
		if pn {
			return &sim.Violation{Clause: "panic", Sig: sig, Detail: "Save(" + k + ")"}
		}
		if err == nil {
			return &sim.Violation{Clause: "bad-target-nil", Sig: k, Detail: "Save to an unwritable target (" + k + ") returned nil"}
		}
	}
	// legal but unusual: dangling symlink -> the file is created at its target
	tgt := filepath.Join(dir, "dangling-target.docx")
	link := filepath.Join(dir, "dangling.docx")
	_ = os.Symlink(tgt, link)
	err, sig, pn := try(link)
	if pn {
		return &sim.Violation{Clause: "panic", Sig: sig, Detail: "Save(dangling symlink)"}
	}
	if err == nil {
		got, _ := os.ReadFile(tgt)
		now, _ := d.ToBytes()
		if ok, why := sameParts(got, now); !ok {
			return &sim.Violation{Clause: "nil-on-fault", Sig: "dangling-symlink", Detail: why}
		}
	}
	os.Remove(link)
	os.Remove(tgt)
	return nil
}

func (c05) Witnesses() []*sim.Case {
	// regression witness of the fixed finding "save-drops-close-errors": a
	// tiny document whose whole output sits in the ZIP writer's buffer, with
	// the failure at byte 100 (surfaces only at Close) — must pass now.
	mk := func(off int, note string) *sim.Case {
		return &sim.Case{Prop: "C05", Lane: "B", Note: note, Order: "sorted",
			Cfg:   map[string]int{"offset_set": 1, "offset": off, "bound": 1 << 20},
			Tasks: [][]sim.Op{{{K: "para", S: []sim.Str{"hello"}}}}}
	}
	w := []*sim.Case{mk(100, "save-drops-close-errors: failure surfaces only at Close"), mk(0, "save-drops-close-errors: nothing can be written")}
	full := &sim.Case{Prop: "C05", Lane: "B", Note: "save-drops-close-errors: /dev/full", Order: "sorted",
		Cfg: map[string]int{"bound": 0, "targets_only": 1}, Tasks: [][]sim.Op{{{K: "para", S: []sim.Str{"hello"}}}}}
	return append(w, full)
}
