package props

import (
	"fmt"
	"os"
	"path/filepath"
	"regexp"
	"sort"
	"strings"
	"time"

	"github.com/anishathalye/porcupine"
	"github.com/zerx-lab/wordZero/pkg/document"

	"verif/sim"
	"verif/sim/sched"
	"verif/simrt"
	"verif/world"
)

// C17 — template rendering is pure, repeatable and safe to use concurrently.
//
// One engine shared by K tasks. Task 0 of a case is the sequential set-up
// (base documents, shared data objects, first loads); tasks 1..K run as
// goroutines under the seeded scheduler with every lock operation of the
// engine as a yield point, in the -race build.
type c17 struct{}

func init() { Register(c17{}) }

func (c17) ID() string     { return "C17" }
func (c17) Flavor() string { return "race" }
func (c17) Runs(tier string) int {
	if tier == "thorough" {
		return 60000
	}
	return 2400
}

func (c17) Describe() Description {
	return Description{
		Rule: "one case = one template engine, a sequential set-up (1-2 base documents built through the document API with placeholders in paragraphs, tables and a header, " +
			"3 shared data objects, first loads incl. a base template with blocks and its overriding child) and K in 1..3 tasks with seeded lists over LoadTemplate / " +
			"LoadTemplateFromDocument / RenderToDocument / RenderTemplateToDocument / GetTemplate / RemoveTemplate / ClearCache / ValidateTemplate / SetBasePath on a pool of 5 " +
			"names, plus mutation sweeps over rendered documents. Tasks are goroutines holding a futex baton; the seeded scheduler picks the next task at every operation " +
			"boundary and at every Lock/RLock/Unlock/RUnlock of the engine (lock seam in the instrumented copy), in the -race build. Oracles: (1) purity - reflective deep " +
			"digests (private fields included) of every base document, data object and loaded template, before vs after (after every operation when K=1, at quiescence " +
			"otherwise); (2)+(3) linearizability of the recorded history (invoke/return stamped with the global event number) against a model name -> chain of load " +
			"versions, where a render's output must equal what a FRESH engine renders for that chain with pristine copies of base document and data (porcupine, 30 s, " +
			"Illegal = violation, Unknown = inconclusive and not reported); (4) empty race log; (5) no deadlock. Non-trivial = >= 1 load and >= 2 renders returning a document, " +
			"and for K>1 at least one context switch at a lock operation; distinct = distinct event-log fingerprints (ops, outputs, schedule).",
		Assumptions: []string{"the search lane loads an overriding child once, in the set-up, and never renders its base or gives it siblings (listed finding: loading a child writes into the shared parent)",
			"outputs are compared as canonical packages of the rendered document"},
		RealVsStub: map[string]string{"real": "template engine, document clone, renderer, sync.RWMutex inside the lock wrapper, Go race detector, goroutines",
			"stub": "goroutine scheduling (seeded baton scheduler), lock acquisition order (shadow ownership + yield), map iteration order"},
	}
}

func (c17) Nontrivial(c *sim.Case, st *sim.Stats) bool {
	ok := st.Ops["e.load"]+st.Ops["e.loaddoc"] >= 1 && st.Probes["renders_ok"] >= 2
	if len(c.Tasks) > 2 {
		ok = ok && st.Probes["lock_yields"] > 0
	}
	return ok
}

var c17names = []string{"t0", "t1", "t2", "t3", "t4"}

// ---- generator -----------------------------------------------------------------------

func c17BaseDocOps(r *sim.Rand, slot int, multiHF bool) []sim.Op {
	g := world.NewGen(r.Fork())
	g.Alpha = []int{0, 4}
	g.Fam = world.FBody | world.FParaFmt | world.FTable | world.FPage
	g.HFOncePerKind, g.RectTablesOnly, g.NoCellList = true, true, true
	ops := g.DocOps(slot, r.Range(1, 6))
	ph := func(s string) sim.Op { return sim.Op{K: "para", D: slot, S: []sim.Str{sim.Str(s)}} }
	ops = append(ops, ph("Dear {{name}}, welcome to {{city}}"))
	if r.Bool() {
		op := sim.Op{K: "fpara", D: slot, S: []sim.Str{"Title: {{title}} / {{v1}}"}, I: []int{1, 0, 14, 0, 0, 0}}
		op.S = append(op.S, "FF0000", "Arial", "")
		ops = append(ops, op)
	}
	if r.Bool() {
		ops = append(ops, sim.Op{K: "t.new", D: slot, I: []int{2, 2, 5000, 0, 1}, S: []sim.Str{"{{v1}}", "static", "{{name}} x", "{{missing}}"}})
	}
	if r.Bool() {
		ops = append(ops, sim.Op{K: "hdr", D: slot, S: []sim.Str{"default", "Header {{title}}"}})
	}
	if multiHF {
		ops = append(ops, sim.Op{K: "ftr", D: slot, S: []sim.Str{"default", "Footer {{v2}}"}})
	}
	if r.Chance(0.3) {
		ops = append(ops, ph("{{#if show}}shown {{n}}{{/if}} tail"))
	}
	if r.Chance(0.4) {
		ops = append(ops, ph("{{#image pic}}"))
	}
	if r.Chance(0.3) {
		// a table whose middle row is a loop over a list of the data, in some documents with a nested table in a cell of that row
		ops = append(ops, sim.Op{K: "t.new", D: slot, I: []int{3, 3, 6000, 0, 1}, S: []sim.Str{"Item", "Qty", "Note", "{{#each items}}{{f1}}", "{{qty}} pcs", "{{f2}}{{/each}}", "Total", "", "end"}})
		if r.Bool() {
			ops = append(ops, sim.Op{K: "t.nested", D: slot, I: []int{-1, 1, 1, 1, 2, 2000, 0, 1}, S: []sim.Str{"{{label}} nested", "for {{name}}"}})
		}
	}
	ops = append(ops, g.DocOps(slot, r.Range(0, 3))...)
	return ops
}

func (c17) Gen(r *sim.Rand, c *sim.Case, tier string) {
	k := []int{1, 2, 2, 3, 3}[r.Intn(5)]
	tg := &TGen{R: r.Fork(), Else: true, Nested: r.Bool(), Newlines: r.Bool(), Hostile: r.Chance(0.3), VarRefs: r.Chance(0.4)}
	if Wild {
		// values that look like template syntax are re-scanned in map order (listed under C16): with them,
		// repeatability fails for a reason that is not this property's own
		tg.Else, tg.HostileV = true, true
	}
	var setup []sim.Op
	ndocs := r.Range(1, 2)
	var doc0 []sim.Op
	for s := 0; s < ndocs; s++ {
		if s == 1 && r.Chance(0.4) {
			// a revision of document 0: the same paragraphs, word for word, but another table and other formatting (what a template
			// looks like after its author reworked the layout); loaded under the name the first one was loaded under
			for _, op := range doc0 {
				op.D = 1
				setup = append(setup, op)
			}
			setup = append(setup, sim.Op{K: "t.new", D: 1, I: []int{2, 3, 6000, 0, 1}, S: []sim.Str{"Quantity", "Unit price {{v1}}", "Sum", "{{n}}", "x", "y"}},
				sim.Op{K: "p.bold", D: 1, I: []int{0, 1}}, sim.Op{K: "p.align", D: 1, I: []int{0, 2}})
			continue
		}
		ops := c17BaseDocOps(r, s, Wild && r.Bool())
		if s == 0 {
			doc0 = ops
		}
		setup = append(setup, ops...)
	}
	for i := 0; i < 3; i++ {
		d := tg.Data()
		if r.Chance(0.6) {
			// a picture for the image placeholder of document templates, handed over with and without a configuration, alt text and title
			d.Images = map[string][]int{"pic": world.TplImageSpec(r, []int{r.Intn(3), r.Range(2, 12), r.Range(2, 12), 880000 + i})}
		}
		setup = append(setup, sim.Op{K: "e.data", I: []int{i}, S: []sim.Str{sim.Str(d.JSON())}})
	}
	baseA := func() string {
		return tsrc(tg.Seq(1)) + "{{#block \"b1\"}}" + tsrc([]*TNode{tg.lit(), {Kind: "var", Name: "v1"}}) + "{{/block}}" + tsrc(tg.Seq(1)) +
			"{{#block \"b2\"}}" + tsrc([]*TNode{tg.lit()}) + "{{/block}}"
	}
	childA := func() string {
		return "{{extends \"t0\"}}{{#block \"b1\"}}" + tsrc([]*TNode{tg.lit(), {Kind: "var", Name: "name"}}) + "{{/block}}"
	}
	baseB := func() string {
		s := tsrc(tg.Seq(r.Range(1, 4)))
		if r.Bool() {
			s += "{{#block \"x1\"}}" + tsrc([]*TNode{tg.lit()}) + "{{/block}}"
		}
		return s
	}
	childB := func() string { // extends t2, defines no block that t2 defines
		s := "{{extends \"t2\"}}"
		if r.Bool() {
			s += "{{#block \"other\"}}" + tsrc([]*TNode{tg.lit()}) + "{{/block}}"
		}
		return s + tsrc(tg.Seq(1))
	}
	load := func(n int, content string) sim.Op {
		return sim.Op{K: "e.load", I: []int{n}, S: []sim.Str{sim.Str(content)}}
	}
	setup = append(setup, load(0, baseA()), load(1, childA()))
	if r.Bool() {
		setup = append(setup, load(2, baseB()))
	}
	if r.Bool() {
		setup = append(setup, sim.Op{K: "e.loaddoc", I: []int{4, r.Intn(ndocs)}})
	}
	c.Tasks = [][]sim.Op{setup}
	// sources loaded earlier are loaded again unchanged now and then (a program that reloads its templates): what such a load
	// resolves - the parent - is what the cache holds at that moment
	var usedB, usedChildB []string
	again := func(used *[]string, fresh func() string) string {
		if len(*used) > 0 && r.Chance(0.4) {
			return (*used)[r.Intn(len(*used))]
		}
		s := fresh()
		*used = append(*used, s)
		return s
	}
	for t := 0; t < k; t++ {
		var ops []sim.Op
		n := r.Range(3, 12)
		for len(ops) < n {
			switch x := r.Intn(20); {
			case x < 3:
				ops = append(ops, load(2, again(&usedB, baseB)))
			case x < 5:
				ops = append(ops, load(3, again(&usedChildB, childB)))
			case x < 7:
				ops = append(ops, sim.Op{K: "e.loaddoc", I: []int{[]int{4, 4, 2}[r.Intn(3)], r.Intn(ndocs)}})
			case x < 14:
				name := []int{1, 2, 3, 4, 4, 2}[r.Intn(6)]
				if Wild {
					name = r.Intn(5)
				}
				ops = append(ops, sim.Op{K: "e.render", I: []int{name, r.Intn(3), r.Intn(2), btoiP(r.Chance(0.3))}})
			case x < 15:
				ops = append(ops, sim.Op{K: "e.get", I: []int{r.Intn(5)}})
			case x < 17:
				ops = append(ops, sim.Op{K: "e.remove", I: []int{r.Range(2, 4)}})
			case x < 18:
				if r.Chance(0.3) {
					ops = append(ops, sim.Op{K: "e.clear"})
				}
			case x < 19:
				ops = append(ops, sim.Op{K: "e.validate", I: []int{r.Intn(5)}})
			default:
				ops = append(ops, sim.Op{K: "e.setbase", S: []sim.Str{sim.Str(r.Pick("", "/tmp/x", "templates"))}})
			}
		}
		if Wild && r.Chance(0.5) {
			ops = append(ops, load(r.Intn(5), r.Pick(childA(), baseA(), childB())))
		}
		c.Tasks = append(c.Tasks, ops)
	}
	c.SchedSeed = r.Uint64()
	c.Order = orderPolicy(r)
	c.OrderSeed = r.Uint64()
	c.Cfg["preempt"] = preemptMean(r)
	c.Cfg["log"] = btoiP(r.Chance(0.3)) // the library's logging switched on (into a sink): its formatting and its clock reads run inside the tasks
}

// ---- execution -----------------------------------------------------------------------

var extendsRe = regexp.MustCompile(`\{\{extends\s+"([^"]+)"\}\}`)

type c17src struct {
	name    int
	content string // text template source ("" for document templates)
	slot    int    // base document slot, -1 for text templates
}

func (s c17src) key() string {
	if s.slot >= 0 {
		return fmt.Sprintf("%s<doc%d", c17names[s.name], s.slot)
	}
	return fmt.Sprintf("%s<%s", c17names[s.name], sim.Digest([]byte(s.content)))
}

func (s c17src) parent() int {
	if s.slot >= 0 {
		return -1
	}
	m := extendsRe.FindStringSubmatch(s.content)
	if m == nil {
		return -1
	}
	for i, n := range c17names {
		if n == m[1] {
			return i
		}
	}
	return -1
}

type c17ev struct {
	task      int
	op        sim.Op
	call, ret int64
	out       string
}

type c17run struct {
	c        *sim.Case
	env      *Env
	eng      *document.TemplateEngine
	w        *world.World // base documents
	data     []*document.TemplateData
	dataSrc  []*TData
	dataDig  []map[string]string
	baseDig  map[int]map[string]string
	tmpl     []*c17tmpl
	srcs     map[string]c17src
	baseOps  map[int][]sim.Op
	soloMemo map[string]string
	viol     []sim.Violation
	rejected map[string]int
	fold     bool // the precondition of the listed finding holds in this case
}

type c17tmpl struct {
	t   *document.Template
	dig map[string]string
	key string
}

var c17seq int64

//go:norace
func c17stamp() int64 { c17seq++; return c17seq }

var blockNameRe = regexp.MustCompile(`\{\{#block\s+"([^"]+)"\}\}`)

// overridingLoadInTasks is the precondition of the listed finding
// "parent-mutated-by-child-load": some task (not the set-up) loads a template
// that extends a parent and redefines one of the parent's blocks.
func overridingLoadInTasks(c *sim.Case) bool {
	blocks := map[string]map[string]bool{} // template name -> block names of any content loaded under it
	for _, t := range c.Tasks {
		for _, op := range t {
			if op.K == "e.load" {
				n := c17names[pickIdxP(op.Int(0), len(c17names))]
				if blocks[n] == nil {
					blocks[n] = map[string]bool{}
				}
				for _, m := range blockNameRe.FindAllStringSubmatch(op.Str(0), -1) {
					blocks[n][m[1]] = true
				}
			}
		}
	}
	for ti, t := range c.Tasks {
		if ti == 0 {
			continue
		}
		for _, op := range t {
			if op.K != "e.load" {
				continue
			}
			m := extendsRe.FindStringSubmatch(op.Str(0))
			if m == nil {
				continue
			}
			for _, b := range blockNameRe.FindAllStringSubmatch(op.Str(0), -1) {
				if blocks[m[1]][b[1]] {
					return true
				}
			}
		}
	}
	return false
}

func (r *c17run) fail(clause, sig, detail string) {
	if r.fold {
		switch {
		case clause == "not-linearizable" && strings.HasSuffix(sig, ":text"),
			clause == "impure" && (sig == "template.Blocks" || sig == "template.DefinedBlocks"),
			clause == "race" && strings.Contains(sig, "processBlockOverrides"):
			sig = "parent-mutated-by-child-load"
		}
	}
	for _, v := range r.viol {
		if v.Clause == clause && v.Sig == sig {
			return
		}
	}
	r.viol = append(r.viol, sim.Violation{Clause: clause, Sig: sig, Detail: detail})
}

func errClass(err error) string {
	if err == nil {
		return "ok"
	}
	if strings.Contains(err.Error(), "template not found") {
		return "notfound"
	}
	return "err"
}

func templateDigest(t *document.Template) map[string]string {
	d := FieldDigests(t)
	delete(d, "BaseDoc") // base documents are digested separately
	if t.Parent != nil {
		d["Parent"] = fmt.Sprintf("%p", t.Parent)
	} else {
		d["Parent"] = "nil"
	}
	return d
}

// renderOut is the observable result of a render: canonical package digest.
func renderOut(doc *document.Document, err error) string {
	if err != nil {
		return errClass(err)
	}
	if doc == nil {
		return "nil-doc"
	}
	var b []byte
	var e2 error
	if sig, pn := Guard(func() { b, e2 = doc.ToBytes() }); pn {
		return "save-panic:" + sig
	}
	if e2 != nil {
		return "save-err"
	}
	cp, e3 := CanonPackage(b)
	if e3 != nil {
		return "unreadable"
	}
	return "doc:" + inspectHashLines(cp.Summary())
}

// mutateRendered changes a rendered document in every way the public structs
// allow; nothing of it may reach the base document or a later render.
func mutateRendered(doc *document.Document) {
	if doc == nil || doc.Body == nil {
		return
	}
	for _, p := range doc.Body.GetParagraphs() {
		for i := range p.Runs {
			p.Runs[i].Text.Content += "~M"
			if p.Runs[i].Properties != nil {
				p.Runs[i].Properties.Bold = &document.Bold{}
				if p.Runs[i].Properties.Color != nil {
					p.Runs[i].Properties.Color.Val = "00FF00"
				}
				if p.Runs[i].Properties.FontFamily != nil {
					p.Runs[i].Properties.FontFamily.ASCII = "Mutated"
				}
			}
		}
		if p.Properties != nil {
			if p.Properties.Justification != nil {
				p.Properties.Justification.Val = "right"
			}
			if p.Properties.Spacing != nil {
				p.Properties.Spacing.Before = "999"
			}
			if p.Properties.ParagraphStyle != nil {
				p.Properties.ParagraphStyle.Val = "Mutated"
			}
		}
		p.SetAlignment(document.AlignCenter)
	}
	for _, t := range doc.Body.GetTables() {
		_ = t.SetCellText(0, 0, "mutated cell")
		_ = t.AppendRow([]string{"m"})
		if t.Grid != nil && len(t.Grid.Cols) > 0 {
			t.Grid.Cols[0].W = "1"
		}
		if t.Properties != nil && t.Properties.TableW != nil {
			t.Properties.TableW.W = "1"
		}
		for ri := range t.Rows {
			for ci := range t.Rows[ri].Cells {
				cell := &t.Rows[ri].Cells[ci]
				if cell.Properties != nil && cell.Properties.TableCellW != nil {
					cell.Properties.TableCellW.W = "7"
				}
				for pi := range cell.Paragraphs {
					for qi := range cell.Paragraphs[pi].Runs {
						cell.Paragraphs[pi].Runs[qi].Text.Content += "~"
					}
				}
			}
		}
	}
	doc.AddParagraph("added to the rendered document")
	_ = doc.SetPageMargins(11, 12, 13, 14)
	_ = doc.AddHeader(document.HeaderFooterTypeFirst, "mutated header")
	if st := doc.GetStyleManager().GetStyle("Normal"); st != nil && st.RunPr != nil && st.RunPr.FontSize != nil {
		st.RunPr.FontSize.Val = "99"
	}
	for name, b := range doc.GetParts() {
		if len(b) > 0 && strings.HasPrefix(name, "word/header") {
			b[0] ^= 0 // parts are handed out by reference: touching them must not reach the base (read only here)
		}
	}
}

// applyEngineOp executes one engine operation and returns its observable output.
func (r *c17run) applyEngineOp(task int, op sim.Op, st *sim.Stats) string {
	name := c17names[pickIdxP(op.Int(0), len(c17names))]
	switch op.K {
	case "e.load":
		t, err := r.eng.LoadTemplate(name, op.Str(0))
		if err == nil && t != nil {
			r.tmpl = append(r.tmpl, &c17tmpl{t: t, dig: templateDigest(t), key: name})
		}
		return errClass(err)
	case "e.loaddoc":
		ds := r.w.Doc(op.Int(1))
		t, err := r.eng.LoadTemplateFromDocument(name, ds.D)
		if err == nil && t != nil {
			r.tmpl = append(r.tmpl, &c17tmpl{t: t, dig: templateDigest(t), key: name})
		}
		return errClass(err)
	case "e.render":
		data := r.data[pickIdxP(op.Int(1), len(r.data))]
		var doc *document.Document
		var err error
		if op.Int(2) == 0 {
			doc, err = r.eng.RenderToDocument(name, data)
		} else {
			doc, err = r.eng.RenderTemplateToDocument(name, data)
		}
		out := renderOut(doc, err)
		if strings.HasPrefix(out, "doc:") {
			st.Probe("renders_ok")
		}
		if op.Int(3) != 0 && doc != nil {
			mutateRendered(doc)
			st.Probe("rendered_doc_mutated")
		}
		return out
	case "e.get":
		_, err := r.eng.GetTemplate(name)
		return errClass(err)
	case "e.remove":
		r.eng.RemoveTemplate(name)
		return "ok"
	case "e.clear":
		r.eng.ClearCache()
		return "ok"
	case "e.validate":
		t, err := r.eng.GetTemplate(name)
		if err != nil {
			return "notfound"
		}
		return "validated:" + errClass(r.eng.ValidateTemplate(t))
	case "e.setbase":
		r.eng.SetBasePath(op.Str(0))
		return "ok"
	}
	panic("c17: unknown op " + op.K)
}

func pickIdxP(i, n int) int {
	if n == 0 {
		return 0
	}
	i %= n
	if i < 0 {
		i += n
	}
	return i
}

// checkPurity compares the digests of base documents, data and templates with
// their baselines.
func (r *c17run) checkPurity(when string) {
	for _, s := range sortedIntKeys(r.baseDig) {
		now := FieldDigests(r.w.Doc(s).D)
		if f := FirstChangedField(r.baseDig[s], now); f != "" {
			r.fail("impure", "base-document."+f, fmt.Sprintf("%s: field %s of base document %d changed although only the engine and rendered documents were used", when, f, s))
		}
	}
	for i, d := range r.data {
		now := FieldDigests(d)
		if f := FirstChangedField(r.dataDig[i], now); f != "" {
			r.fail("impure", "data."+f, fmt.Sprintf("%s: field %s of data object %d was modified by rendering", when, f, i))
		}
	}
	for _, t := range r.tmpl {
		now := templateDigest(t.t)
		if f := FirstChangedField(t.dig, now); f != "" {
			r.fail("impure", "template."+f, fmt.Sprintf("%s: field %s of a loaded template (%s) changed after its own load", when, f, t.key))
		}
	}
}

func sortedIntKeys[V any](m map[int]V) []int {
	var ks []int
	for k := range m {
		ks = append(ks, k)
	}
	sort.Ints(ks)
	return ks
}

// solo renders, in a fresh engine, the version chain (leaf first) with
// pristine copies of base documents and data.
func (r *c17run) solo(chain []string, dataIdx, entry int) string {
	key := strings.Join(chain, "|") + fmt.Sprintf("#%d#%d", dataIdx, entry)
	if v, ok := r.soloMemo[key]; ok {
		return v
	}
	eng := document.NewTemplateEngine()
	for i := len(chain) - 1; i >= 0; i-- {
		s := r.srcs[chain[i]]
		if s.slot >= 0 {
			// pristine base document: rebuilt from its set-up operations
			w2 := world.New(sim.NewStats(), &sim.Log{}, r.w.Tmp)
			for _, op := range r.baseOps[s.slot] {
				w2.Apply(op)
			}
			if _, err := eng.LoadTemplateFromDocument(c17names[s.name], w2.Doc(s.slot).D); err != nil {
				r.soloMemo[key] = "solo-load-err"
				return "solo-load-err"
			}
		} else if _, err := eng.LoadTemplate(c17names[s.name], s.content); err != nil {
			r.soloMemo[key] = "solo-load-err"
			return "solo-load-err"
		}
	}
	leaf := r.srcs[chain[0]]
	data := r.dataSrc[dataIdx].ToLibIn(filepath.Join(r.w.Tmp, "tplimg"))
	var doc *document.Document
	var err error
	if entry == 0 {
		doc, err = eng.RenderToDocument(c17names[leaf.name], data)
	} else {
		doc, err = eng.RenderTemplateToDocument(c17names[leaf.name], data)
	}
	out := renderOut(doc, err)
	r.soloMemo[key] = out
	return out
}

// ---- porcupine model -------------------------------------------------------------------

// model state: "name=chain;..." sorted by name; chain = source keys joined by "|", leaf first.
func c17parse(state string) map[string]string {
	m := map[string]string{}
	for _, kv := range strings.Split(state, ";") {
		if k, v, ok := strings.Cut(kv, "="); ok {
			m[k] = v
		}
	}
	return m
}

func c17fmt(m map[string]string) string {
	var ks []string
	for k := range m {
		ks = append(ks, k)
	}
	sort.Strings(ks)
	var b strings.Builder
	for _, k := range ks {
		b.WriteString(k + "=" + m[k] + ";")
	}
	return b.String()
}

func (r *c17run) model() porcupine.Model {
	return porcupine.Model{
		Init: func() interface{} { return "" },
		Step: func(state, input, output interface{}) (bool, interface{}) {
			op, out := input.(sim.Op), output.(string)
			m := c17parse(state.(string))
			name := c17names[pickIdxP(op.Int(0), len(c17names))]
			switch op.K {
			case "e.load", "e.loaddoc":
				if out != "ok" {
					return true, state // a failed load changes nothing
				}
				src := c17src{name: pickIdxP(op.Int(0), len(c17names)), content: op.Str(0), slot: -1}
				if op.K == "e.loaddoc" {
					src = c17src{name: src.name, slot: op.Int(1)}
				}
				chain := src.key()
				if p := src.parent(); p >= 0 {
					if pc, ok := m[c17names[p]]; ok {
						chain += "|" + pc
					}
				}
				m[name] = chain
				return true, c17fmt(m)
			case "e.render":
				chain, ok := m[name]
				if !ok {
					return out == "notfound", state
				}
				want := r.solo(strings.Split(chain, "|"), pickIdxP(op.Int(1), len(r.data)), op.Int(2))
				if out != want {
					r.rejected[fmt.Sprintf("render%v with %s current: got %s, a fresh engine gives %s", op.I, chain, out, want)]++
				}
				return out == want, state
			case "e.get":
				_, ok := m[name]
				return (out == "ok") == ok, state
			case "e.validate":
				_, ok := m[name]
				return (out != "notfound") == ok, state
			case "e.remove":
				delete(m, name)
				return true, c17fmt(m)
			case "e.clear":
				return true, ""
			}
			return true, state
		},
		Equal: func(a, b interface{}) bool { return a.(string) == b.(string) },
		DescribeOperation: func(input, output interface{}) string {
			op := input.(sim.Op)
			return fmt.Sprintf("%s%v -> %s", op.K, op.I, output)
		},
	}
}

func (p c17) Exec(c *sim.Case, env *Env) []sim.Violation {
	setLogging(c.C("log") == 1)
	defer setLogging(false)
	document.VerifResetProcessState()
	dir := env.MkTmp("c17")
	defer os.RemoveAll(dir)
	r := &c17run{c: c, env: env, eng: document.NewTemplateEngine(), w: world.New(env.Stats, env.Log, dir),
		baseDig: map[int]map[string]string{}, srcs: map[string]c17src{}, baseOps: map[int][]sim.Op{}, soloMemo: map[string]string{}, rejected: map[string]int{}}
	ntasks := len(c.Tasks) - 1
	if ntasks < 0 {
		return nil
	}
	r.fold = overridingLoadInTasks(c)
	s := sched.New(sim.NewRand(c.SchedSeed))
	ord := simrt.InstallOrder(c.Order, c.OrderSeed, ntasks, s)
	defer simrt.Uninstall()

	// every source that any load of the case may install (for the model)
	for _, t := range c.Tasks {
		for _, op := range t {
			switch op.K {
			case "e.load":
				src := c17src{name: pickIdxP(op.Int(0), len(c17names)), content: op.Str(0), slot: -1}
				r.srcs[src.key()] = src
			case "e.loaddoc":
				src := c17src{name: pickIdxP(op.Int(0), len(c17names)), slot: op.Int(1)}
				r.srcs[src.key()] = src
			}
		}
	}

	// ---- set-up (sequential)
	var hist []c17ev
	for _, op := range c.Tasks[0] {
		switch {
		case op.K == "e.data":
			d := ParseTData(op.Str(0))
			r.dataSrc = append(r.dataSrc, d)
			r.data = append(r.data, d.ToLibIn(filepath.Join(r.w.Tmp, "tplimg")))
		case strings.HasPrefix(op.K, "e."):
			if len(r.data) == 0 {
				d := &TData{}
				r.dataSrc, r.data = append(r.dataSrc, d), append(r.data, d.ToLibIn(filepath.Join(r.w.Tmp, "tplimg")))
			}
			ev := c17ev{task: 0, op: op, call: c17stamp()}
			var out string
			if sig, pn := Guard(func() { out = r.applyEngineOp(0, op, env.Stats) }); pn {
				r.fail("panic", sig, "engine operation "+op.K+" panicked")
				return r.viol
			}
			ev.out, ev.ret = out, c17stamp()
			env.Stats.Op(op.K)
			env.Log.Event("setup %s%v -> %s", op.K, op.I, out)
			hist = append(hist, ev)
		default:
			r.baseOps[op.D] = append(r.baseOps[op.D], op)
			r.w.Apply(op)
		}
	}
	if len(r.data) == 0 {
		d := &TData{}
		r.dataSrc, r.data = append(r.dataSrc, d), append(r.data, d.ToLibIn(filepath.Join(r.w.Tmp, "tplimg")))
	}
	for slot := range r.baseOps {
		r.baseDig[slot] = FieldDigests(r.w.Doc(slot).D)
	}
	for _, d := range r.data {
		r.dataDig = append(r.dataDig, FieldDigests(d))
	}
	// templates loaded in the set-up are digested now (the listed finding
	// "child load writes into the parent" happens inside the set-up)
	for _, t := range r.tmpl {
		t.dig = templateDigest(t.t)
	}

	// ---- tasks
	lockStats := simrt.InstallLocks(s)
	simrt.InstallPoints(s, c.C("preempt"))
	evs := make([][]c17ev, ntasks)
	stats := make([]*sim.Stats, ntasks)
	tmplByTask := make([][]*c17tmpl, ntasks)
	panics := make([]string, ntasks)
	fns := make([]func(), ntasks)
	single := ntasks == 1
	for t := 0; t < ntasks; t++ {
		t := t
		stats[t] = sim.NewStats()
		ops := c.Tasks[t+1]
		// every task appends its loaded templates to a private list
		fns[t] = func() {
			tr := *r
			tr.tmpl = nil
			for _, op := range ops {
				ev := c17ev{task: t + 1, op: op, call: c17stamp()}
				var out string
				if sig, pn := Guard(func() { out = tr.applyEngineOp(t+1, op, stats[t]) }); pn {
					panics[t] = sig
					out = "panic"
				}
				ev.out, ev.ret = out, c17stamp()
				stats[t].Op(op.K)
				evs[t] = append(evs[t], ev)
				if single {
					r.tmpl = append(r.tmpl, tr.tmpl...)
					tr.tmpl = nil
					r.checkPurity("after " + op.K)
				}
				if panics[t] != "" {
					break
				}
				s.Yield()
			}
			tmplByTask[t] = tr.tmpl
		}
	}
	if env.RaceNew != nil {
		env.RaceNew()
	}
	if ntasks > 0 {
		s.Run(fns)
	}
	raceLog := ""
	if env.RaceNew != nil {
		raceLog = env.RaceNew()
	}
	env.Stats.ProbeN("context_switches", int64(s.Switches))
	env.Stats.ProbeN("lock_yields", lockStats.Acquires)
	env.Stats.ProbeN("preemptions_inside_library_calls", int64(s.Preemptions))
	env.Stats.ProbeN("preemption_points_passed", s.Points)
	env.Stats.ProbeN("lock_blocks", lockStats.Blocks)
	env.Stats.ProbeN("keys_calls_with_choice", ord.Calls)
	env.Log.Event("sched %v", s.Trace)
	if s.Deadlock || s.Overrun {
		r.fail("deadlock", "engine-tasks-stuck", fmt.Sprintf("no runnable task while some task is unfinished (deadlock=%v overrun=%v)", s.Deadlock, s.Overrun))
		return r.viol
	}
	for t := 0; t < ntasks; t++ {
		env.Stats.Add(stats[t])
		r.tmpl = append(r.tmpl, tmplByTask[t]...)
		for _, ev := range evs[t] {
			env.Log.Event("t%d %s%v [%d,%d] -> %s", ev.task, ev.op.K, ev.op.I, ev.call, ev.ret, ev.out)
		}
		if panics[t] != "" {
			r.fail("panic", panics[t], "an engine operation panicked")
		}
		hist = append(hist, evs[t]...)
	}
	if len(r.viol) > 0 && c.Lane != "B" {
		return r.viol[:1]
	}

	// (1) purity at quiescence
	r.checkPurity("at quiescence")

	// (4) races
	sigs, texts, harness := RaceSigs(raceLog, false, false)
	if harness != "" {
		panic("the harness itself raced:\n" + harness)
	}
	for _, sg := range sigs {
		env.Stats.Probe("race_reports")
		r.fail("race", sg, firstLinesOf(texts[sg], 14))
	}

	// (2)+(3) linearizability against the version model
	simrt.Uninstall()
	simrt.InstallOrder(c.Order, c.OrderSeed^7, 0, nil)
	var pops []porcupine.Operation
	for _, ev := range hist {
		pops = append(pops, porcupine.Operation{ClientId: ev.task, Input: ev.op, Call: ev.call, Output: ev.out, Return: ev.ret})
	}
	res := porcupine.CheckOperationsTimeout(r.model(), pops, 30*time.Second)
	switch res {
	case porcupine.Illegal:
		sg, which := r.linSig(hist)
		r.fail("not-linearizable", sg, which+"; no sequential order of the recorded load/render/remove history explains the render outputs (each render must equal what a fresh engine renders for the version chain current at some instant between its invocation and its return)")
	case porcupine.Unknown:
		env.Stats.Probe("linearizability_inconclusive")
	default:
		env.Stats.Probe("linearizable_histories")
	}
	if len(r.viol) > 1 && c.Lane != "B" {
		r.viol = r.viol[:1]
	}
	return r.viol
}

// chainsOf enumerates every version chain a name can have in this case.
func (r *c17run) chainsOf(name int, depth int) []string {
	var out []string
	for _, k := range sim.SortedKeys(r.srcs) {
		src := r.srcs[k]
		if src.name != name {
			continue
		}
		out = append(out, k)
		if p := src.parent(); p >= 0 && depth < 3 {
			for _, pc := range r.chainsOf(p, depth+1) {
				out = append(out, k+"|"+pc)
			}
		}
	}
	return out
}

// linSig classifies an illegal history: either some render's output is the
// output of no version chain its name can have in this case, or every output
// is explicable on its own and only the order is not.
func (r *c17run) linSig(hist []c17ev) (string, string) {
	for _, ev := range hist {
		if ev.op.K != "e.render" || !strings.HasPrefix(ev.out, "doc:") {
			continue
		}
		name := pickIdxP(ev.op.Int(0), len(c17names))
		match := false
		kind := "text"
		for _, ch := range r.chainsOf(name, 0) {
			if strings.Contains(strings.Split(ch, "|")[0], "<doc") {
				kind = "doc"
			}
			if r.solo(strings.Split(ch, "|"), pickIdxP(ev.op.Int(1), len(r.data)), ev.op.Int(2)) == ev.out {
				match = true
				break
			}
		}
		if !match {
			entry := "RenderToDocument"
			if ev.op.Int(2) != 0 {
				entry = "RenderTemplateToDocument"
			}
			return "render-matches-no-version:" + entry + ":" + kind, fmt.Sprintf("task %d %s%v [%d,%d] returned %s, which no version of %s renders in a fresh engine", ev.task, ev.op.K, ev.op.I, ev.call, ev.ret, ev.out, c17names[name])
		}
	}
	var rej []string
	for _, k := range sim.SortedKeys(r.rejected) {
		rej = append(rej, k)
	}
	if len(rej) > 4 {
		rej = rej[:4]
	}
	return "order", "every render output equals some version's output, but no order of the operations explains all of them; rejected steps: " + strings.Join(rej, " / ")
}

func (c17) Witnesses() []*sim.Case {
	mk := func(note string, tasks ...[]sim.Op) *sim.Case {
		return &sim.Case{Prop: "C17", Lane: "B", Note: note, Order: "sorted", SchedSeed: 5, Cfg: map[string]int{}, Tasks: tasks}
	}
	data := sim.Op{K: "e.data", I: []int{0}, S: []sim.Str{`{"v":{"name":"N","v1":"V"}}`}}
	load := func(n int, s string) sim.Op { return sim.Op{K: "e.load", I: []int{n}, S: []sim.Str{sim.Str(s)}} }
	render := func(n int) sim.Op { return sim.Op{K: "e.render", I: []int{n, 0, 0, 0}} }
	base := `H {{#block "b"}}default{{/block}} T`
	child := `{{extends "t0"}}{{#block "b"}}CHILD{{/block}}`
	child2 := `{{extends "t0"}}{{#block "b"}}OTHER{{/block}}`
	// regression witnesses of the fixed finding render-looks-up-twice: schedules (seeds 1, 4, 7) under which, before the fix,
	// a LoadTemplateFromDocument landed between the two cache lookups of RenderTemplateToDocument
	var twice []*sim.Case
	for _, seed := range []uint64{1, 4, 7} {
		setup := []sim.Op{{K: "para", S: []sim.Str{"Dear {{name}}, welcome"}}, data, load(2, "text {{name}}")}
		var t1, t2 []sim.Op
		for i := 0; i < 4; i++ {
			t1 = append(t1, sim.Op{K: "e.render", I: []int{2, 0, 1, 0}})
		}
		for i := 0; i < 2; i++ {
			t2 = append(t2, sim.Op{K: "e.loaddoc", I: []int{2, 0}}, load(2, "text {{name}}"))
		}
		w := mk("render-looks-up-twice: load-from-document between the two lookups", setup, t1, t2)
		w.SchedSeed = seed
		twice = append(twice, w)
	}
	// regression witness of the fixed finding render-writes-image-config: an image handed over with a configuration of its own and with details
	picData := sim.Op{K: "e.data", I: []int{0}, S: []sim.Str{`{"v":{"name":"N"},"i":{"pic":[0,9,8,880002,5,79,77,2]}}`}}
	twice = append(twice, mk("render-writes-image-config: the alt text of the placeholder is written into the caller's configuration",
		[]sim.Op{{K: "para", S: []sim.Str{"{{#image pic}}"}}, picData}, []sim.Op{{K: "e.loaddoc", I: []int{4, 0}}, {K: "e.render", I: []int{4, 1, 0, 0}}}))
	return append(twice, []*sim.Case{
		mk("parent-mutated-by-child-load: the base renders the child's block", []sim.Op{data, load(0, base)}, []sim.Op{render(0), load(1, child), render(0)}),
		mk("parent-mutated-by-child-load: a sibling renders the last-loaded child's block", []sim.Op{data, load(0, base), load(1, child)}, []sim.Op{render(1), load(2, child2), render(1)}),
		mk("parent-mutated-by-child-load: race between a render and a child load", []sim.Op{data, load(0, base), load(1, child)},
			[]sim.Op{render(1), render(1), render(1), render(1)}, []sim.Op{load(2, child2), load(2, child2), load(2, child2)}),
	}...)
}
