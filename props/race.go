package props

import (
	"sort"
	"strings"
)

// RaceReport is one report of the Go race detector, reduced to the innermost
// library frame of each of the two conflicting accesses.
type RaceReport struct {
	Kinds   [2]string   // "read" | "write"
	Frames  [2]string   // innermost library function of each access ("" if none)
	Stacks  [2][]string // all library functions on each access's stack, innermost first
	Harness bool        // neither stack has a library frame and the accesses are not the operation layer's: the harness itself raced
	Via     [2]string   // innermost frame of the operation layer (verif/world) on each stack, "" if none
	Text    string
}

// Sig is the unordered pair kind@function, line numbers dropped.
func (r RaceReport) Sig() string {
	fa, fb := r.Frames[0], r.Frames[1]
	if fa == "" && r.Via[0] != "" {
		fa = "public-structs-via-" + r.Via[0]
	}
	if fb == "" && r.Via[1] != "" {
		fb = "public-structs-via-" + r.Via[1]
	}
	a := r.Kinds[0] + "@" + fa
	b := r.Kinds[1] + "@" + fb
	if b < a {
		a, b = b, a
	}
	return a + "|" + b
}

// ParseRaceLog splits the detector's output into reports.
func ParseRaceLog(s string) []RaceReport {
	var out []RaceReport
	for _, blk := range strings.Split(s, "==================") {
		if !strings.Contains(blk, "WARNING: DATA RACE") {
			continue
		}
		rep := RaceReport{Text: strings.TrimSpace(blk)}
		idx := -1
		lines := strings.Split(blk, "\n")
		for i := 0; i < len(lines); i++ {
			ln := strings.TrimSpace(lines[i])
			low := strings.ToLower(ln)
			isAccess := (strings.HasPrefix(low, "read at") || strings.HasPrefix(low, "write at") ||
				strings.HasPrefix(low, "previous read at") || strings.HasPrefix(low, "previous write at") ||
				strings.HasPrefix(low, "atomic read at") || strings.HasPrefix(low, "atomic write at") ||
				strings.HasPrefix(low, "previous atomic"))
			if isAccess {
				idx++
				if idx > 1 {
					break
				}
				if strings.Contains(low, "write") {
					rep.Kinds[idx] = "write"
				} else {
					rep.Kinds[idx] = "read"
				}
				// frames follow until an empty line
				for j := i + 1; j < len(lines); j++ {
					f := strings.TrimSpace(lines[j])
					if f == "" {
						break
					}
					if strings.HasPrefix(f, "github.com/zerx-lab/wordZero/pkg/") && !strings.Contains(f, "/pkg/verifrt.") {
						if rep.Frames[idx] == "" {
							rep.Frames[idx] = frameName(f)
						}
						rep.Stacks[idx] = append(rep.Stacks[idx], frameName(f))
					}
					if strings.HasPrefix(f, "verif/props.mutateRendered(") && rep.Via[idx] == "" {
						// C17's writes through the public structs of a document a render returned: each task mutates only documents
						// it was handed, so memory two of them reach is shared between two renderings (or with the base document)
						rep.Via[idx] = "mutateRendered"
					}
					if strings.HasPrefix(f, "verif/props.(*digester).walk(") && rep.Via[idx] == "" {
						// the purity digest only reads base documents, data and templates; a harness write it conflicts with can only be
						// mutateRendered's, i.e. a rendered document reaches into what it was rendered from
						rep.Via[idx] = "purity-digest"
					}
					if strings.HasPrefix(f, "verif/world.") && rep.Via[idx] == "" {
						v := strings.TrimPrefix(f, "verif/world.")
						if k := strings.Index(v, "("); k > 0 && !strings.HasPrefix(v, "(") {
							v = v[:k]
						} else if strings.HasPrefix(v, "(*World).") {
							v = strings.TrimPrefix(v, "(*World).")
							if k := strings.Index(v, "("); k > 0 {
								v = v[:k]
							}
						}
						rep.Via[idx] = strings.TrimSuffix(v, ".func1")
					}
				}
				continue
			}
			if strings.HasPrefix(low, "goroutine ") {
				break
			}
		}
		// Two tasks that race without any library frame, both inside the operation layer, touch memory that
		// is reachable from two different documents through the public structs (each task has its own World and
		// the operation layer owns no shared mutable state): that is the library's sharing, not the harness's.
		rep.Harness = rep.Frames[0] == "" && rep.Frames[1] == "" && !(rep.Via[0] != "" && rep.Via[1] != "")
		out = append(out, rep)
	}
	return out
}

func frameName(line string) string {
	f := strings.TrimPrefix(line, "github.com/zerx-lab/wordZero/pkg/")
	for i := 0; i < len(f); i++ {
		if f[i] == '(' && !(i+1 < len(f) && f[i+1] == '*') {
			f = f[:i]
			break
		}
	}
	// closures: document.(*T).f.func1 -> keep
	return f
}

// registryFuncs: functions that read or write the process-wide note /
// numbering registries (the known finding "process-wide registries").
var noteRegistryFuncs = []string{"getFootnoteManager", "addFootnoteOrEndnote", "createNoteContent", "createFootnoteContent", "createEndnoteContent",
	"updateFootnotesFile", "updateEndnotesFile", "GetFootnoteCount", "GetEndnoteCount", "RemoveFootnote", "RemoveEndnote", "AddFootnote", "AddEndnote",
	"AddFootnoteToRun", "ensureFootnoteInitialized", "ensureEndnoteInitialized", "SetFootnoteConfig"}
var numRegistryFuncs = []string{"getNumberingManager", "getOrCreateNumbering", "updateNumberingFile", "RestartNumbering", "ensureNumberingInitialized",
	"createAbstractNum", "AddListItem", "CreateMultiLevelList"}

func inSet(frame string, set []string) bool {
	i := strings.LastIndex(frame, ".")
	name := frame
	if i >= 0 {
		name = frame[i+1:]
	}
	// closures end in funcN: take the enclosing function
	for strings.HasPrefix(name, "func") && i > 0 {
		rest := frame[:i]
		j := strings.LastIndex(rest, ".")
		name = rest[j+1:]
		i = j
	}
	for _, s := range set {
		if s == name {
			return true
		}
	}
	return false
}

// RaceClass folds the many function pairs that touch one known shared
// registry into one signature - but only when the precondition of that known
// finding holds in the case at hand (two or more documents use the registry);
// every other pair keeps its exact signature.
func RaceClass(r RaceReport, foldNotes, foldNums bool) string {
	anyIn := func(stack []string, set []string) bool {
		for _, f := range stack {
			if inSet(f, set) {
				return true
			}
		}
		return false
	}
	if foldNotes && anyIn(r.Stacks[0], noteRegistryFuncs) && anyIn(r.Stacks[1], noteRegistryFuncs) {
		return "registry:notes"
	}
	if foldNums && anyIn(r.Stacks[0], numRegistryFuncs) && anyIn(r.Stacks[1], numRegistryFuncs) {
		return "registry:numbering"
	}
	return r.Sig()
}

// RaceSigs returns the distinct classes of the library races in a log, and
// whether the harness itself raced.
func RaceSigs(log string, foldNotes, foldNums bool) (sigs []string, texts map[string]string, harness string) {
	texts = map[string]string{}
	for _, r := range ParseRaceLog(log) {
		if r.Harness {
			harness = r.Text
			continue
		}
		c := RaceClass(r, foldNotes, foldNums)
		if _, ok := texts[c]; !ok {
			texts[c] = r.Text
			sigs = append(sigs, c)
		}
	}
	sort.Strings(sigs)
	return
}
