package props

import (
	"verif/foreign"
	"verif/sim"
	"verif/world"
)

// C02 — relationships and relationship references always resolve, uniquely.
type c02 struct{}

func init() { Register(c02{}) }

func (c02) ID() string     { return "C02" }
func (c02) Flavor() string { return "instr" }
func (c02) Runs(tier string) int {
	if tier == "thorough" {
		return 150000
	}
	return 6000
}

func (c02) Describe() Description {
	return Description{
		Rule: "one case = a seeded history of relationship-creating operations (images in body and table cells, headers/footers of all kinds, first list item, " +
			"notes, footnote settings, properties) interleaved with other edits, save events through both entry points, document restarts and process restarts; " +
			"about a third of the cases start from a package written by the independent foreign producer whose relationship ids are arbitrary " +
			"(sparse, not rId<n>, styles not rId1, no styles part) and is then extended. The relationship-graph invariant is evaluated at every save event: ids unique per " +
			".rels, every internal target present, relationships owned by the part that uses them, every r:id/r:embed resolves to the matching type. " +
			"Non-trivial = >= 1 relationship-creating op and >= 1 save; distinct = distinct event-log fingerprints.",
		Assumptions: []string{"two relationships to one target with different ids are allowed by OPC and not flagged"},
		RealVsStub:  map[string]string{"real": "whole library incl. both open paths and both save paths", "stub": "map iteration order; the foreign producer is simulator code"},
	}
}

var relOps = map[string]bool{"tpl.render": true, "img": true, "cellimg": true, "imgfile": true, "hdr": true, "ftr": true, "hdrpn": true, "ftrpn": true, "fhdr": true, "fftr": true, "li": true, "fn": true, "en": true, "fncfg": true, "prop": true, "foreign": true}

func (c02) Nontrivial(c *sim.Case, st *sim.Stats) bool {
	n := int64(0)
	for k := range relOps {
		n += st.Ops[k]
	}
	return n > 0 && st.Probes["save_events"] > 0
}

func (c02) Gen(r *sim.Rand, c *sim.Case, tier string) {
	g := world.NewGen(r)
	g.Extra = true
	g.Alpha = []int{0, 4}
	g.Fam = world.FBody | world.FImage | world.FHF | world.FTable
	for _, f := range []int{world.FList, world.FNote, world.FProp, world.FPage, world.FParaFmt} {
		if r.Chance(0.5) {
			g.Fam |= f
		}
	}
	var pre []sim.Op
	fromForeign := r.Chance(0.35)
	if !Wild {
		g.HFOncePerKind = true
		g.RectTablesOnly = true
	}
	if !fromForeign && r.Chance(0.2) {
		g.HFOncePerKind = false
		c.Cfg["template"] = 1
		c.Tasks = [][]sim.Op{templateScenario(r, g)}
		c.Order = orderPolicy(r)
		c.OrderSeed = r.Uint64()
		return
	}
	if fromForeign {
		flags := int(r.Uint64()) & foreign.FAllBits
		pre = append(pre, sim.Op{K: "foreign", I: []int{int(r.Uint64() >> 40), flags, r.Intn(3)}})
		c.Cfg["foreign"] = 1
	}
	ops := g.DocOps(0, r.Range(3, 25))
	if !fromForeign && r.Chance(0.15) {
		// a table is built on the side, gets a picture, the document is saved, and only then the table goes into the body
		f := r.Intn(3)
		k := r.Intn(len(ops) + 1)
		side := []sim.Op{{K: "t.create", I: []int{2, 2, 5000, 0, 0}},
			{K: "cellimg", I: []int{f, 7, 9, 660000 + r.Intn(1000), 0, 0, 0, 0, 2000, r.Intn(2), r.Intn(2)}, F: []float64{30, 20, 0, 0}, S: []sim.Str{sim.Str(g.ImageName(f)), "side-table-picture", "t"}},
			{K: "save", I: []int{r.Intn(2)}}}
		rest := append([]sim.Op{}, ops[k:]...)
		ops = append(append(ops[:k:k], side...), rest...)
		ops = append(ops, sim.Op{K: "t.attach"}, sim.Op{K: r.Pick("hdr", "ftr"), S: []sim.Str{"even", "after the table went in"}})
	}
	ops = sprinkleSaves(r, ops, 0, r.Range(2, 8), 0.4, 0.1)
	ops = append(ops, sim.Op{K: "save", I: []int{r.Intn(2)}})
	c.Tasks = [][]sim.Op{append(pre, ops...)}
	c.Order = orderPolicy(r)
	c.OrderSeed = r.Uint64()
}

func (c02) Exec(c *sim.Case, env *Env) []sim.Violation {
	obs := &histObserver{}
	obs.onSave = func(w *world.World, ds *world.Doc, b []byte) []sim.Violation {
		pkg, wf := CheckWellFormed(b)
		if pkg == nil {
			return wf[:1]
		}
		if vs := CheckRels(pkg); len(vs) > 0 {
			return vs[:1]
		}
		return nil
	}
	_, viol := runHistory(c, env, "c02", obs, nil)
	if len(viol) > 1 {
		viol = viol[:1]
	}
	return viol
}

func (c02) Witnesses() []*sim.Case {
	mk := func(note string, ops ...sim.Op) *sim.Case {
		ops = append(ops, sim.Op{K: "save"}, sim.Op{K: "restart", I: []int{1, 2}}, sim.Op{K: "save", I: []int{1}})
		return &sim.Case{Prop: "C02", Lane: "B", Note: note, Order: "sorted", Cfg: map[string]int{}, Tasks: [][]sim.Op{ops}}
	}
	img := sim.Op{K: "img", I: []int{0, 8, 8, 42, 0, 0, 0, 0}, S: []sim.Str{"a.png", "alt", "title"}, F: []float64{0, 0, 0, 0}}
	hdr := sim.Op{K: "hdr", S: []sim.Str{"default", "head"}}
	return []*sim.Case{
		mk("notes-rel-in-package-root: footnote", sim.Op{K: "fn", S: []sim.Str{"text", "note"}}),
		mk("notes-rel-in-package-root: endnote + settings", sim.Op{K: "en", S: []sim.Str{"text", "note"}}, sim.Op{K: "fncfg", S: []sim.Str{"lowerRoman", "continuous", "pageBottom"}, I: []int{1}}),
		mk("rel-id-collision: rId1 is the theme", sim.Op{K: "foreign", I: []int{5, foreign.FStylesNotRId1, 0}}, img, hdr),
		mk("rel-id-collision: sparse ids", sim.Op{K: "foreign", I: []int{6, foreign.FSparseIDs | foreign.FExtraParts | foreign.FHeaderMedia, 0}}, img, img, hdr),
		mk("rel-id-collision: ids not of the form rId<n>", sim.Op{K: "foreign", I: []int{7, foreign.FOddIDs | foreign.FExtraParts | foreign.FNoStyles, 2}}, img, hdr),
		mk("target-mode-dropped: external hyperlink", sim.Op{K: "foreign", I: []int{8, foreign.FHyperlink, 1}}, sim.Op{K: "para", S: []sim.Str{"x"}}),
	}
}
