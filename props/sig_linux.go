package props

import (
	"os/signal"
	"syscall"
)

// ignoreSIGXFSZ: with the signal ignored, a write beyond RLIMIT_FSIZE fails
// with EFBIG instead of killing the process.
func ignoreSIGXFSZ() { signal.Ignore(syscall.SIGXFSZ) }
