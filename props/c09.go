package props

import (
	"fmt"
	"reflect"
	"strconv"
	"strings"
	"unsafe"

	"github.com/zerx-lab/wordZero/pkg/document"

	"verif/inspect"
	"verif/sim"
	"verif/world"
)

// C09 — tables stay well-formed grids under every sequence of structural edits.
type c09 struct{}

func init() { Register(c09{}) }

func (c09) ID() string     { return "C09" }
func (c09) Flavor() string { return "instr" }
func (c09) Runs(tier string) int {
	if tier == "thorough" {
		return 400000
	}
	return 12000
}

func (c09) Describe() Description {
	return Description{
		Rule: "one case = a seeded history over InsertRow / AppendRow / DeleteRow(s) / InsertColumn / AppendColumn / DeleteColumn(s) / SetCellText / SetCellFormattedText / AddCellFormattedText / " +
			"AddCellParagraph / ClearCellContent / MergeCellsHorizontal / Vertical / Range / UnmergeCells / AddNestedTable / CopyTable on 1-3 tables of shapes 1x1..5x5 (with and without column " +
			"widths), positions inside, at and beyond the bounds, with save events and document restarts in between (tables that come back from a reopen carry merges as the reader built them). " +
			"Reference model = physical rows of cell records {unique text tags, gridSpan, vMerge} with the documented semantics. After EVERY operation: an operation that returned an error left " +
			"Rows and Grid deep-equal (reflective digest) to the snapshot before; otherwise every row spans exactly the declared grid, every cell has >= 1 paragraph, every vMerge continuation " +
			"sits under a restart/continuation in the same grid column, and every cell's text, span and merge state is where the model says; results (error or not) equal the model's; no panic. " +
			"After CopyTable a reflective alias detector walks both object graphs: any pointer, slice backing array or map reachable from both is shared mutable state. At saves w:tbl satisfies the " +
			"grid arithmetic in the independent parser. Non-trivial = >= 3 structural/merge operations applied and >= 1 save or restart; distinct = distinct fingerprints.",
		Assumptions: []string{"positions are physical indices into Rows[r].Cells (merged-away cells are removed from storage), as the property's state description says",
			"the search lane applies row/column structural edits only to tables without merges and merges only where physical and grid positions agree across the rows involved (listed findings cover the rest); operations outside that domain are skipped at execution time, deterministically"},
		RealVsStub: map[string]string{"real": "table API, writer, reader", "stub": "map iteration order"},
	}
}

func (c09) Nontrivial(c *sim.Case, st *sim.Stats) bool {
	return st.Probes["structural_applied"] >= 3 && st.Probes["save_events"]+st.Probes["restart_doc"] >= 1
}

func (c09) Gen(r *sim.Rand, c *sim.Case, tier string) {
	nt := r.Range(1, 3)
	var ops []sim.Op
	g := world.NewGen(r)
	g.Alpha = []int{0}
	if r.Chance(0.3) {
		g.Alpha = append(g.Alpha, 3, 4)
	}
	maxR, maxC := r.Range(1, 5), r.Range(1, 5)
	cells := func(n int) []sim.Str {
		var out []sim.Str
		for i := 0; i < n; i++ {
			out = append(out, sim.Str(g.Text()))
		}
		return out
	}
	for t := 0; t < nt; t++ {
		rows, cols := r.Range(1, maxR), r.Range(1, maxC)
		ops = append(ops, sim.Op{K: "t.new", I: []int{rows, cols, []int{0, 5000, 9000}[r.Intn(3)], r.Intn(2), 1}, S: cells(rows * cols)})
	}
	restarts := r.Chance(0.5)
	n := r.Range(4, 40)
	for i := 0; i < n; i++ {
		t := r.Intn(nt + 1) // may address a copy created later
		a, b := r.Range(-1, maxR+1), r.Range(-1, maxC+1)
		switch x := r.Intn(24); {
		case x < 2:
			ops = append(ops, sim.Op{K: "t.insrow", I: []int{t, a}, S: cells(r.Intn(maxC + 2))})
		case x < 3:
			ops = append(ops, sim.Op{K: "t.approw", I: []int{t}, S: cells(r.Intn(maxC + 2))})
		case x < 5:
			ops = append(ops, sim.Op{K: r.Pick("t.delrow", "t.delcol"), I: []int{t, a}})
		case x < 6:
			ops = append(ops, sim.Op{K: r.Pick("t.delrows", "t.delcols"), I: []int{t, a, a + r.Range(-1, 2)}})
		case x < 8:
			ops = append(ops, sim.Op{K: "t.inscol", I: []int{t, b, r.Range(0, 3000)}, S: cells(r.Intn(maxR + 2))})
		case x < 9:
			ops = append(ops, sim.Op{K: "t.appcol", I: []int{t, 0, r.Range(0, 3000)}, S: cells(r.Intn(maxR + 2))})
		case x < 12:
			ops = append(ops, sim.Op{K: "t.mergeh", I: []int{t, a, b, b + r.Range(0, 3)}})
		case x < 15:
			ops = append(ops, sim.Op{K: "t.mergev", I: []int{t, a, a + r.Range(0, 3), b}})
		case x < 16:
			ops = append(ops, sim.Op{K: "t.merger", I: []int{t, a, a + r.Range(0, 2), b, b + r.Range(0, 2)}})
		case x < 18:
			ops = append(ops, sim.Op{K: "t.unmerge", I: []int{t, a, b}})
		case x < 20:
			ops = append(ops, sim.Op{K: "t.settext", I: []int{t, a, b}, S: cells(1)})
		case x < 21:
			op := sim.Op{K: r.Pick("t.setftext", "t.addftext"), I: []int{t, a, b, 1, 0, 12, 0, 0, 0}, S: append(cells(1), "FF0000", "Arial", "")}
			ops = append(ops, op)
		case x < 22:
			ops = append(ops, sim.Op{K: r.Pick("t.clearcell", "t.addpara"), I: []int{t, a, b}, S: cells(1)})
		case x < 23:
			if !restarts {
				ops = append(ops, sim.Op{K: "t.nested", I: []int{t, a, b, r.Range(1, 2), r.Range(1, 2), 3000, 0, 0}})
			}
		default:
			ops = append(ops, sim.Op{K: "t.copy", I: []int{t}})
		}
	}
	rp := 0.0
	if restarts {
		rp = 0.5
	}
	ops = sprinkleSaves(r, ops, 0, r.Range(3, 10), rp, 0)
	c.Tasks = [][]sim.Op{ops}
	c.Order = orderPolicy(r)
	c.OrderSeed = r.Uint64()
}

// ---- model ------------------------------------------------------------------------

type mcell struct {
	text string
	span int
	vm   string // "" | restart | continue
}

type mtable struct {
	rows [][]mcell
	grid int
}

func (m *mtable) clone() *mtable {
	n := &mtable{grid: m.grid}
	for _, r := range m.rows {
		n.rows = append(n.rows, append([]mcell{}, r...))
	}
	return n
}

func (m *mtable) merged() bool {
	for _, r := range m.rows {
		if len(r) != m.grid {
			return true
		}
		for _, c := range r {
			if c.span != 1 || c.vm != "" {
				return true
			}
		}
	}
	return false
}

// gridCol is the grid column where physical cell c of row r starts.
func (m *mtable) gridCol(r, c int) int {
	g := 0
	for i := 0; i < c && i < len(m.rows[r]); i++ {
		g += m.rows[r][i].span
	}
	return g
}

func cellText(c *document.TableCell) string {
	var sb strings.Builder
	for i := range c.Paragraphs {
		for j := range c.Paragraphs[i].Runs {
			sb.WriteString(c.Paragraphs[i].Runs[j].Text.Content)
		}
	}
	return sb.String()
}

func realTable(t *document.Table) *mtable {
	m := &mtable{}
	if t.Grid != nil {
		m.grid = len(t.Grid.Cols)
	}
	for i := range t.Rows {
		var row []mcell
		for j := range t.Rows[i].Cells {
			c := &t.Rows[i].Cells[j]
			mc := mcell{text: cellText(c), span: 1}
			if c.Properties != nil {
				if c.Properties.GridSpan != nil && c.Properties.GridSpan.Val != "" {
					if n, err := strconv.Atoi(c.Properties.GridSpan.Val); err == nil && n > 0 {
						mc.span = n
					}
				}
				if c.Properties.VMerge != nil {
					mc.vm = c.Properties.VMerge.Val
					if mc.vm == "" {
						mc.vm = "continue"
					}
				}
			}
			row = append(row, mc)
		}
		m.rows = append(m.rows, row)
	}
	return m
}

// wellFormed checks the grid invariants of the property on a table state.
func (m *mtable) wellFormed() (string, string) {
	for i, r := range m.rows {
		s := 0
		for _, c := range r {
			s += c.span
		}
		if s != m.grid {
			return "row-span-differs-from-grid", fmt.Sprintf("row %d spans %d grid columns, the grid declares %d", i, s, m.grid)
		}
	}
	for i, r := range m.rows {
		for j, c := range r {
			if c.vm != "continue" {
				continue
			}
			g := m.gridCol(i, j)
			ok := false
			if i > 0 {
				for k, a := range m.rows[i-1] {
					if m.gridCol(i-1, k) == g && (a.vm == "restart" || a.vm == "continue") {
						ok = true
					}
				}
			}
			if !ok {
				return "vmerge-continuation-without-start", fmt.Sprintf("cell (%d,%d) continues a vertical merge but the cell above it in grid column %d neither starts nor continues one", i, j, g)
			}
		}
	}
	return "", ""
}

// inDomain reports whether op, applied to model state m, lies in the search lane's domain.
func (m *mtable) inDomain(op sim.Op) bool {
	a, b, c2, d := op.Int(1), op.Int(2), op.Int(3), op.Int(4)
	aligned := func(r, col int) bool { // physical index col of row r is grid column col, span 1, unmerged
		return r >= 0 && r < len(m.rows) && col >= 0 && col < len(m.rows[r]) && m.gridCol(r, col) == col && m.rows[r][col].span == 1 && m.rows[r][col].vm == ""
	}
	switch op.K {
	case "t.insrow", "t.approw":
		// a new row gets as many cells as the first row physically has: right while the first row has no spanning cell;
		// a row put between the rows of a vertical merge is the listed finding insertrow-inside-vmerge
		if len(m.rows) == 0 {
			return true
		}
		for _, c := range m.rows[0] {
			if c.span != 1 {
				return false
			}
		}
		if op.K == "t.insrow" && a > 0 && a < len(m.rows) {
			for _, c := range m.rows[a] {
				if c.vm == "continue" {
					return false
				}
			}
		}
		return true
	case "t.delrow", "t.delrows":
		// deleting the row that starts a vertical merge is the listed finding deleterow-vmerge-start
		lo, hi := a, a
		if op.K == "t.delrows" {
			hi = b
		}
		for r := lo; r <= hi && r < len(m.rows); r++ {
			if r < 0 {
				continue
			}
			for _, c := range m.rows[r] {
				if c.vm == "restart" {
					return false
				}
			}
		}
		return true
	case "t.inscol", "t.appcol", "t.delcol", "t.delcols":
		// column edits address the same physical index in every row: in the domain while that index is the same grid column in
		// every row (no spanning cell in front of it - for deletions none in the deleted range either) and every row is long enough
		if len(m.rows) == 0 {
			return true
		}
		upto := a // cells [0, upto) must have span 1
		switch op.K {
		case "t.appcol":
			upto = len(m.rows[0])
		case "t.delcol":
			upto = a + 1
		case "t.delcols":
			upto = b + 1
		}
		if upto < 0 || upto > len(m.rows[0])+1 {
			return true // rejected anyway
		}
		for _, row := range m.rows {
			if upto > len(row) {
				return !m.merged() // a rectangular table rejects it; a ragged one is the listed findings ragged-*-panics
			}
			for i := 0; i < upto; i++ {
				if row[i].span != 1 {
					return false
				}
			}
		}
		return true
	case "t.mergeh":
		if a < 0 || a >= len(m.rows) {
			return true // rejected anyway
		}
		for k := b; k <= c2 && k < len(m.rows[a]); k++ {
			if k >= 0 && (m.rows[a][k].span != 1 || m.rows[a][k].vm != "") {
				return false
			}
		}
		return true
	case "t.mergev":
		for r := a; r <= b && r < len(m.rows); r++ {
			if r >= 0 && c2 >= 0 && c2 < len(m.rows[r]) && !aligned(r, c2) {
				return false
			}
		}
		return true
	case "t.merger":
		for r := a; r <= b && r < len(m.rows); r++ {
			if r < 0 {
				continue
			}
			for k := c2; k <= d && k < len(m.rows[r]); k++ {
				if k >= 0 && !aligned(r, k) {
					return false
				}
			}
			// a failure in a later row after earlier rows were merged is the listed finding merge-range-partial
			if c2 >= len(m.rows[r]) || d >= len(m.rows[r]) {
				return false
			}
		}
		return true
	case "t.unmerge":
		if a < 0 || a >= len(m.rows) || b < 0 || b >= len(m.rows[a]) {
			return true
		}
		if m.rows[a][b].vm != "" {
			g := m.gridCol(a, b)
			for r := a; r < len(m.rows); r++ {
				if b < len(m.rows[r]) && m.gridCol(r, b) != g {
					return false
				}
			}
			// the rows below that continue this merge must hold the continuation at the same physical index
			// (a horizontal merge in such a row after the vertical merge moves it: listed finding unmerge-vmerge-shifted-row)
			for r := a + 1; r < len(m.rows); r++ {
				found := false
				for k := range m.rows[r] {
					if m.gridCol(r, k) == g && m.rows[r][k].vm == "continue" {
						found = true
						if k != b {
							return false
						}
					}
				}
				if !found {
					break
				}
			}
		}
		return true
	}
	return true
}

// apply runs op on the model; returns (rejected, targetRow, targetCol) where the
// target cell's text is re-read from the implementation (its exact content is
// the callee's business), -1 if none.
func (m *mtable) apply(op sim.Op) (reject bool, tr, tc int) {
	tr, tc = -1, -1
	a, b, c2, d := op.Int(1), op.Int(2), op.Int(3), op.Int(4)
	rows := len(m.rows)
	cols := 0
	if rows > 0 {
		cols = len(m.rows[0])
	}
	data := func(from int) []string {
		var out []string
		for i := from; i < len(op.S); i++ {
			out = append(out, string(op.S[i]))
		}
		return out
	}
	inCell := func(r, c int) bool { return r >= 0 && r < rows && c >= 0 && c < len(m.rows[r]) }
	switch op.K {
	case "t.insrow", "t.approw":
		pos := a
		if op.K == "t.approw" {
			pos = rows
		}
		dt := data(0)
		if pos < 0 || pos > rows || rows == 0 || len(dt) > cols {
			return true, -1, -1
		}
		nr := make([]mcell, cols)
		for i := range nr {
			nr[i].span = 1
			if i < len(dt) {
				nr[i].text = dt[i]
			}
		}
		m.rows = append(m.rows[:pos:pos], append([][]mcell{nr}, m.rows[pos:]...)...)
	case "t.delrow":
		if a < 0 || a >= rows || rows <= 1 {
			return true, -1, -1
		}
		m.rows = append(m.rows[:a:a], m.rows[a+1:]...)
	case "t.delrows":
		if a < 0 || b >= rows || a > b || rows-(b-a+1) < 1 {
			return true, -1, -1
		}
		m.rows = append(m.rows[:a:a], m.rows[b+1:]...)
	case "t.inscol", "t.appcol":
		pos := a
		if op.K == "t.appcol" {
			pos = cols
		}
		dt := data(0)
		if rows == 0 || pos < 0 || pos > cols || len(dt) > rows {
			return true, -1, -1
		}
		for i := range m.rows {
			nc := mcell{span: 1}
			if i < len(dt) {
				nc.text = dt[i]
			}
			m.rows[i] = append(m.rows[i][:pos:pos], append([]mcell{nc}, m.rows[i][pos:]...)...)
		}
		m.grid++
	case "t.delcol":
		if rows == 0 || a < 0 || a >= cols || cols <= 1 {
			return true, -1, -1
		}
		for i := range m.rows {
			m.rows[i] = append(m.rows[i][:a:a], m.rows[i][a+1:]...)
		}
		m.grid--
	case "t.delcols":
		if rows == 0 || a < 0 || b >= cols || a > b || cols-(b-a+1) < 1 {
			return true, -1, -1
		}
		for i := range m.rows {
			m.rows[i] = append(m.rows[i][:a:a], m.rows[i][b+1:]...)
		}
		m.grid -= b - a + 1
	case "t.settext", "t.setftext", "t.addftext", "t.addpara", "t.clearcell":
		if !inCell(a, b) {
			return true, -1, -1
		}
		return false, a, b
	case "t.nested":
		if !inCell(a, b) {
			return true, -1, -1
		}
		return false, a, b
	case "t.mergeh":
		if a < 0 || a >= rows || b < 0 || c2 >= len(m.rows[a]) || b > c2 || b == c2 {
			return true, -1, -1
		}
		m.rows[a][b].span = c2 - b + 1
		m.rows[a] = append(m.rows[a][:b+1:b+1], m.rows[a][c2+1:]...)
	case "t.mergev":
		if a < 0 || b >= rows || a > b || c2 < 0 || a == b {
			return true, -1, -1
		}
		for r := a; r <= b; r++ {
			if c2 >= len(m.rows[r]) {
				return true, -1, -1
			}
		}
		m.rows[a][c2].vm = "restart"
		for r := a + 1; r <= b; r++ {
			m.rows[r][c2].vm = "continue"
			m.rows[r][c2].text = ""
		}
	case "t.merger":
		if a < 0 || b >= rows || a > b {
			return true, -1, -1
		}
		for r := a; r <= b; r++ {
			if c2 < 0 || c2 >= len(m.rows[r]) || d >= len(m.rows[r]) || c2 > d {
				return true, -1, -1
			}
		}
		for r := a; r <= b; r++ {
			if c2 != d {
				m.rows[r][c2].span = d - c2 + 1
				m.rows[r] = append(m.rows[r][:c2+1:c2+1], m.rows[r][d+1:]...)
			}
		}
		if a != b {
			m.rows[a][c2].vm = "restart"
			for r := a + 1; r <= b; r++ {
				m.rows[r][c2].vm = "continue"
				m.rows[r][c2].text = ""
			}
		}
	case "t.unmerge":
		if !inCell(a, b) {
			return true, -1, -1
		}
		cell := &m.rows[a][b]
		if cell.span > 1 {
			var ins []mcell
			for i := 1; i < cell.span; i++ {
				ins = append(ins, mcell{span: 1})
			}
			cell.span = 1
			m.rows[a] = append(m.rows[a][:b+1:b+1], append(ins, m.rows[a][b+1:]...)...)
		}
		if m.rows[a][b].vm != "" {
			m.rows[a][b].vm = ""
			for r := a + 1; r < len(m.rows); r++ {
				if b < len(m.rows[r]) && m.rows[r][b].vm == "continue" {
					m.rows[r][b].vm = ""
				} else {
					break
				}
			}
		}
	}
	return false, -1, -1
}

func (m *mtable) equal(o *mtable) (string, string) {
	if m.grid != o.grid {
		return "grid-columns", fmt.Sprintf("the grid declares %d columns, the model %d", o.grid, m.grid)
	}
	if len(m.rows) != len(o.rows) {
		return "row-count", fmt.Sprintf("%d rows, the model has %d", len(o.rows), len(m.rows))
	}
	for i := range m.rows {
		if len(m.rows[i]) != len(o.rows[i]) {
			return "cell-count", fmt.Sprintf("row %d has %d cells, the model %d", i, len(o.rows[i]), len(m.rows[i]))
		}
		for j := range m.rows[i] {
			a, b := m.rows[i][j], o.rows[i][j]
			switch {
			case a.span != b.span:
				return "grid-span", fmt.Sprintf("cell (%d,%d) spans %d, the model says %d", i, j, b.span, a.span)
			case a.vm != b.vm:
				return "vertical-merge", fmt.Sprintf("cell (%d,%d) has vMerge %q, the model says %q", i, j, b.vm, a.vm)
			case a.text != b.text:
				return "cell-content", fmt.Sprintf("cell (%d,%d) holds %q, the model says %q", i, j, clip(b.text), clip(a.text))
			}
		}
	}
	return "", ""
}

// ---- alias detection -----------------------------------------------------------------

func collectPtrs(v reflect.Value, path string, set map[unsafe.Pointer]string, depth int) {
	if !v.IsValid() || depth > 60 {
		return
	}
	switch v.Kind() {
	case reflect.Ptr:
		if v.IsNil() {
			return
		}
		p := unsafe.Pointer(v.Pointer())
		if _, ok := set[p]; ok {
			return
		}
		set[p] = path
		collectPtrs(v.Elem(), path, set, depth+1)
	case reflect.Interface:
		if !v.IsNil() {
			collectPtrs(v.Elem(), path, set, depth+1)
		}
	case reflect.Slice:
		if v.IsNil() || v.Len() == 0 {
			return
		}
		p := unsafe.Pointer(v.Pointer())
		if _, ok := set[p]; !ok {
			set[p] = path + "[]"
		}
		for i := 0; i < v.Len(); i++ {
			collectPtrs(v.Index(i), path+"[]", set, depth+1)
		}
	case reflect.Map:
		if v.IsNil() {
			return
		}
		set[unsafe.Pointer(v.Pointer())] = path + "{}"
		it := v.MapRange()
		for it.Next() {
			collectPtrs(it.Value(), path+"{}", set, depth+1)
		}
	case reflect.Struct:
		for i := 0; i < v.NumField(); i++ {
			if v.Type().Field(i).Name == "XMLName" {
				continue
			}
			collectPtrs(v.Field(i), path+"."+v.Type().Field(i).Name, set, depth+1)
		}
	case reflect.Array:
		for i := 0; i < v.Len(); i++ {
			collectPtrs(v.Index(i), path+"[]", set, depth+1)
		}
	}
}

// SharedState returns the field paths (in b) of memory reachable from both a and b.
func SharedState(a, b any) []string {
	sa := map[unsafe.Pointer]string{}
	collectPtrs(reflect.ValueOf(a).Elem(), "", sa, 0)
	sb := map[unsafe.Pointer]string{}
	collectPtrs(reflect.ValueOf(b).Elem(), "", sb, 0)
	seen := map[string]bool{}
	var out []string
	for p, path := range sb {
		if _, ok := sa[p]; ok && !seen[path] {
			seen[path] = true
			out = append(out, path)
		}
	}
	sortStrings(out)
	return out
}

func sortStrings(s []string) {
	for i := 1; i < len(s); i++ {
		for j := i; j > 0 && s[j] < s[j-1]; j-- {
			s[j], s[j-1] = s[j-1], s[j]
		}
	}
}

// ---- execution -------------------------------------------------------------------------

var c09structural = map[string]bool{"t.insrow": true, "t.approw": true, "t.delrow": true, "t.delrows": true, "t.inscol": true, "t.appcol": true, "t.delcol": true, "t.delcols": true,
	"t.mergeh": true, "t.mergev": true, "t.merger": true, "t.unmerge": true}

func (c09) Exec(c *sim.Case, env *Env) []sim.Violation {
	dir := env.MkTmp("c09")
	return c09exec(c, env, dir)
}

func c09exec(c *sim.Case, env *Env, dir string) []sim.Violation {
	models := []*mtable{}
	var viol []sim.Violation
	seen := map[string]bool{}
	fail := func(clause, sig, detail string) {
		if !seen[clause+sig] {
			seen[clause+sig] = true
			viol = append(viol, sim.Violation{Clause: clause, Sig: sig, Detail: detail})
		}
	}
	wild := Wild || c.Lane == "B"
	obs := &histObserver{}
	obs.onSave = func(w *world.World, ds *world.Doc, b []byte) []sim.Violation {
		pkg, err := inspect.ReadZip(b)
		if err != nil {
			return nil
		}
		root, err := inspect.ParseXML(pkg.Parts["word/document.xml"])
		if err != nil {
			return nil
		}
		for ti, tb := range root.Child(inspect.NsW, "body").Children(inspect.NsW, "tbl") {
			grid := len(tb.Child(inspect.NsW, "tblGrid").Children(inspect.NsW, "gridCol"))
			for ri, tr := range tb.Children(inspect.NsW, "tr") {
				s := 0
				for _, tc := range tr.Children(inspect.NsW, "tc") {
					n := 1
					if gs := tc.Child(inspect.NsW, "tcPr").Child(inspect.NsW, "gridSpan"); gs != nil {
						if k, err := strconv.Atoi(gs.Val()); err == nil && k > 0 {
							n = k
						}
					}
					s += n
					if len(tc.Children(inspect.NsW, "p")) == 0 {
						return []sim.Violation{v("saved-table", "cell-without-paragraph", fmt.Sprintf("saved table %d row %d has a cell without a paragraph", ti, ri))}
					}
				}
				if s != grid {
					return []sim.Violation{v("saved-table", "row-span-differs-from-grid", fmt.Sprintf("saved table %d: row %d spans %d columns, w:tblGrid declares %d", ti, ri, s, grid))}
				}
			}
		}
		return nil
	}
	document.VerifResetProcessState()
	w := world.New(env.Stats, env.Log, dir)
	w.ShortReadRng = sim.NewRand(c.OrderSeed ^ 0x5151)
	w.Obsv = append(w.Obsv, obs)
	ds := w.Doc(0)
	var inBody []bool
	sync := func() { // after t.new: build the model of the new table from what was created
		for len(models) < len(ds.Tables) {
			models = append(models, realTable(ds.Tables[len(models)]))
			inBody = append(inBody, true)
		}
	}
	for _, op := range c.Tasks[0] {
		if !wild && hasOther(viol, "copy-shares-state") {
			break
		}
		if ds.Dead {
			break
		}
		if !strings.HasPrefix(op.K, "t.") {
			o := w.Apply(op)
			if o.Panic != "" {
				fail("panic", o.Panic, op.K+" panicked")
				break
			}
			if len(w.Viol) > 0 {
				viol = append(viol, w.Viol...)
				w.Viol = nil
			}
			if op.K == "restart" && o.Res == "ok" {
				// copies are detached tables: they are not part of the document and do not come back
				var kept []*mtable
				for i, mdl := range models {
					if i < len(inBody) && inBody[i] {
						kept = append(kept, mdl)
					}
				}
				models = kept
				inBody = inBody[:0]
				for range models {
					inBody = append(inBody, true)
				}
				// the tables came back from the bytes: they must be what the model says (nested tables excepted by the generator)
				for i, t := range ds.Tables {
					if i < len(models) {
						if sg, det := models[i].equal(realTable(t)); sg != "" {
							fail("reopened-table", sg, fmt.Sprintf("table %d after save+open: %s", i, det))
						}
					}
				}
				if len(ds.Tables) != len(models) {
					fail("reopened-table", "table-count", fmt.Sprintf("%d tables after save+open, the model has %d", len(ds.Tables), len(models)))
					break
				}
			}
			continue
		}
		if op.K == "t.new" {
			w.Apply(op)
			sync()
			continue
		}
		if len(ds.Tables) == 0 {
			continue
		}
		ti := op.Int(0) % len(ds.Tables)
		if ti < 0 {
			ti += len(ds.Tables)
		}
		t, m := ds.Tables[ti], models[ti]
		if op.K == "t.copy" {
			before := DeepDigest(t)
			var cp *document.Table
			if sig, pn := Guard(func() { cp = t.CopyTable() }); pn {
				fail("panic", sig, "CopyTable panicked")
				break
			}
			env.Stats.Op(op.K)
			if cp == nil {
				continue
			}
			if DeepDigest(t) != before {
				fail("copy", "original-changed", "CopyTable modified the table it copies")
			}
			if sg, det := m.equal(realTable(cp)); sg != "" {
				fail("copy", "copy-differs:"+sg, "the copy is not equal to the original: "+det)
			}
			for _, path := range SharedState(t, cp) {
				fail("copy-shares-state", path, fmt.Sprintf("memory reachable through %s of the copy is also reachable from the original: a change to one shows in the other", path))
			}
			ds.Tables = append(ds.Tables, cp)
			models = append(models, m.clone())
			inBody = append(inBody, false)
			env.Stats.Probe("copies")
			continue
		}
		if !wild && !m.inDomain(op) {
			env.Stats.Probe("skipped_out_of_domain")
			continue
		}
		// the precondition of the listed findings is part of the signature: an operation outside the
		// search lane's domain (only executed by witnesses / wild runs) is marked as such
		sfx := ""
		if !m.inDomain(op) {
			sfx = ":outside-search-domain"
		}
		before := DeepDigest(t)
		next := m.clone()
		var reject bool
		tr, tc := -1, -1
		modelKnows := true
		if wild && !m.inDomain(op) {
			modelKnows = false // outside its domain the model predicts nothing; the invariants still apply
		} else {
			func() {
				defer func() {
					if recover() != nil {
						modelKnows = false
					}
				}()
				reject, tr, tc = next.apply(op)
			}()
		}
		o := w.Apply(op)
		if o.Panic != "" {
			fail("panic", o.Panic+sfx, fmt.Sprintf("%s%v panicked", op.K, op.I))
			break
		}
		if o.Err != nil {
			if DeepDigest(t) != before {
				cls := op.K
				fail("error-but-changed", cls+sfx, fmt.Sprintf("%s%v returned an error (%v) but the table is not as it was", op.K, op.I, o.Err))
				models[ti] = realTable(t)
				continue
			}
			if modelKnows && !reject && op.K != "t.unmerge" {
				fail("valid-rejected", op.K, fmt.Sprintf("%s%v was rejected (%v); the model accepts it", op.K, op.I, o.Err))
			}
			continue
		}
		real := realTable(t)
		if modelKnows && reject {
			if DeepDigest(t) == before {
				env.Stats.Probe("invalid_request_was_a_no_op")
				continue // succeeded without changing anything: allowed
			}
			fail("invalid-accepted", op.K, fmt.Sprintf("%s%v succeeded and changed the table; the model rejects it (table %dx%d)", op.K, op.I, len(m.rows), m.grid))
			models[ti] = real
			continue
		}
		if c09structural[op.K] {
			env.Stats.Probe("structural_applied")
		}
		if tr >= 0 && tr < len(real.rows) && tc >= 0 && tc < len(real.rows[tr]) && tr < len(next.rows) && tc < len(next.rows[tr]) {
			// the targeted cell: its new text must be there; everything else about its content is the callee's business
			if op.K != "t.clearcell" && op.K != "t.nested" && len(op.S) > 0 && !strings.Contains(real.rows[tr][tc].text, op.Str(0)) {
				fail("cell-write", op.K, fmt.Sprintf("%s%v: cell (%d,%d) does not contain the text just written", op.K, op.I, tr, tc))
			}
			next.rows[tr][tc].text = real.rows[tr][tc].text
		}
		if sg, det := real.wellFormed(); sg != "" {
			fail("not-a-grid", sg+"@"+op.K+sfx, fmt.Sprintf("after %s%v: %s", op.K, op.I, det))
			models[ti] = real
			continue
		}
		for i := range t.Rows {
			for j := range t.Rows[i].Cells {
				if len(t.Rows[i].Cells[j].Paragraphs) == 0 {
					fail("not-a-grid", "cell-without-paragraph@"+op.K, fmt.Sprintf("after %s%v cell (%d,%d) has no paragraph", op.K, op.I, i, j))
				}
			}
		}
		if !modelKnows {
			models[ti] = real
			continue
		}
		if sg, det := next.equal(real); sg != "" {
			fail("grid-model", sg+"@"+op.K, fmt.Sprintf("after %s%v: %s", op.K, op.I, det))
			models[ti] = real
			continue
		}
		// accessors agree with the model
		if t.GetRowCount() != len(next.rows) {
			fail("accessor", "GetRowCount", fmt.Sprintf("GetRowCount=%d, model %d", t.GetRowCount(), len(next.rows)))
		}
		models[ti] = next
		env.Log.Event("tbl %d %s", ti, sim.Digest([]byte(fmt.Sprint(next.rows))))
	}
	return viol
}

func hasOther(vs []sim.Violation, clause string) bool {
	for _, x := range vs {
		if x.Clause != clause {
			return true
		}
	}
	return false
}

func (c09) Witnesses() []*sim.Case {
	mk := func(note string, ops ...sim.Op) *sim.Case {
		all := append([]sim.Op{{K: "t.new", I: []int{3, 3, 5000, 0, 1}, S: []sim.Str{"a", "b", "c", "d", "e", "f", "g", "h", "i"}}}, ops...)
		return &sim.Case{Prop: "C09", Lane: "B", Note: note, Order: "sorted", Cfg: map[string]int{}, Tasks: [][]sim.Op{all}}
	}
	mh := func(r, s, e int) sim.Op { return sim.Op{K: "t.mergeh", I: []int{0, r, s, e}} }
	return []*sim.Case{
		mk("ragged: InsertColumn after a horizontal merge", mh(1, 0, 1), sim.Op{K: "t.inscol", I: []int{0, 3, 1000}, S: []sim.Str{"x"}}),
		mk("ragged: DeleteColumn after a horizontal merge", mh(1, 0, 1), sim.Op{K: "t.delcol", I: []int{0, 2}}),
		mk("ragged: InsertRow templates on a merged first row", mh(0, 0, 1), sim.Op{K: "t.approw", I: []int{0}, S: []sim.Str{"x"}}),
		mk("merge over a cell that already spans", mh(0, 0, 1), mh(0, 0, 1)),
		mk("range merge fails half-way", mh(2, 1, 2), sim.Op{K: "t.merger", I: []int{0, 0, 2, 1, 2}}),
		mk("vertical merge across rows of different physical length", mh(0, 0, 1), sim.Op{K: "t.mergev", I: []int{0, 0, 1, 1}}),
		mk("row inserted inside a vertical merge", sim.Op{K: "t.mergev", I: []int{0, 0, 2, 0}}, sim.Op{K: "t.insrow", I: []int{0, 1}, S: []sim.Str{"x"}}),
		mk("row that starts a vertical merge deleted", sim.Op{K: "t.mergev", I: []int{0, 0, 2, 0}}, sim.Op{K: "t.delrow", I: []int{0, 0}}),
		mk("unmerge of a vertical merge one of whose rows was shortened afterwards", sim.Op{K: "t.mergev", I: []int{0, 0, 1, 2}}, mh(1, 0, 1), sim.Op{K: "t.unmerge", I: []int{0, 0, 2}}),
		mk("row that starts a vertical merge deleted after the row below was shortened", sim.Op{K: "t.mergev", I: []int{0, 0, 1, 2}}, mh(1, 0, 1), sim.Op{K: "t.delrow", I: []int{0, 0}}),
		mk("row that starts a vertical merge deleted after the last row below was shortened", sim.Op{K: "t.mergev", I: []int{0, 1, 2, 2}}, mh(2, 0, 1), sim.Op{K: "t.delrow", I: []int{0, 1}}),
		mk("CopyTable shares state", sim.Op{K: "t.copy", I: []int{0}}),
	}
}
