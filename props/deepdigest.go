package props

import (
	"crypto/sha256"
	"encoding/hex"
	"fmt"
	"hash"
	"reflect"
	"sort"
	"strings"
	"unsafe"
)

// DeepDigest hashes the whole object graph reachable from v by reflection:
// unexported fields included, maps in sorted key order, pointers followed with
// a visited set (a revisit is hashed as a back-reference number, so sharing
// structure is part of the digest), locks and functions skipped. It only
// reads. It is the purity snapshot of C17: serialising a document writes to
// its part map, so the snapshot must not go through the library.
func DeepDigest(v any) string {
	d := &digester{h: sha256.New(), seen: map[unsafe.Pointer]int{}}
	d.walk(reflect.ValueOf(v), 0)
	return hex.EncodeToString(d.h.Sum(nil))[:16]
}

type digester struct {
	h    hash.Hash
	seen map[unsafe.Pointer]int
}

func skipType(t reflect.Type) bool {
	n := t.String()
	return strings.Contains(n, "Mutex") || strings.Contains(n, "sync.") || strings.Contains(n, "LockState")
}

func (d *digester) walk(v reflect.Value, depth int) {
	if !v.IsValid() {
		d.h.Write([]byte("<invalid>"))
		return
	}
	if depth > 200 {
		d.h.Write([]byte("<deep>"))
		return
	}
	t := v.Type()
	if skipType(t) {
		return
	}
	switch v.Kind() {
	case reflect.Bool:
		fmt.Fprintf(d.h, "b%v;", v.Bool())
	case reflect.Int, reflect.Int8, reflect.Int16, reflect.Int32, reflect.Int64:
		fmt.Fprintf(d.h, "i%d;", v.Int())
	case reflect.Uint, reflect.Uint8, reflect.Uint16, reflect.Uint32, reflect.Uint64, reflect.Uintptr:
		fmt.Fprintf(d.h, "u%d;", v.Uint())
	case reflect.Float32, reflect.Float64:
		fmt.Fprintf(d.h, "f%v;", v.Float())
	case reflect.Complex64, reflect.Complex128:
		fmt.Fprintf(d.h, "c%v;", v.Complex())
	case reflect.String:
		fmt.Fprintf(d.h, "s%d:%s;", v.Len(), v.String())
	case reflect.Slice:
		if v.IsNil() {
			d.h.Write([]byte("nilslice;"))
			return
		}
		if t.Elem().Kind() == reflect.Uint8 {
			fmt.Fprintf(d.h, "bytes%d:", v.Len())
			d.h.Write(v.Bytes())
			return
		}
		fmt.Fprintf(d.h, "[%d:", v.Len())
		for i := 0; i < v.Len(); i++ {
			d.walk(v.Index(i), depth+1)
		}
		d.h.Write([]byte("]"))
	case reflect.Array:
		fmt.Fprintf(d.h, "[%d:", v.Len())
		for i := 0; i < v.Len(); i++ {
			d.walk(v.Index(i), depth+1)
		}
		d.h.Write([]byte("]"))
	case reflect.Map:
		if v.IsNil() {
			d.h.Write([]byte("nilmap;"))
			return
		}
		type kv struct {
			k string
			v reflect.Value
		}
		var kvs []kv
		it := v.MapRange()
		for it.Next() {
			kd := &digester{h: sha256.New(), seen: map[unsafe.Pointer]int{}}
			kd.walk(it.Key(), depth+1)
			kvs = append(kvs, kv{hex.EncodeToString(kd.h.Sum(nil)), it.Value()})
		}
		sort.Slice(kvs, func(i, j int) bool { return kvs[i].k < kvs[j].k })
		fmt.Fprintf(d.h, "{%d:", len(kvs))
		for _, e := range kvs {
			d.h.Write([]byte(e.k))
			d.walk(e.v, depth+1)
		}
		d.h.Write([]byte("}"))
	case reflect.Ptr:
		if v.IsNil() {
			d.h.Write([]byte("nil;"))
			return
		}
		p := unsafe.Pointer(v.Pointer())
		if n, ok := d.seen[p]; ok {
			fmt.Fprintf(d.h, "^%d;", n)
			return
		}
		d.seen[p] = len(d.seen)
		d.h.Write([]byte("*"))
		d.walk(v.Elem(), depth+1)
	case reflect.Interface:
		if v.IsNil() {
			d.h.Write([]byte("nilif;"))
			return
		}
		e := v.Elem()
		fmt.Fprintf(d.h, "<%s>", e.Type().String())
		d.walk(e, depth+1)
	case reflect.Struct:
		fmt.Fprintf(d.h, "%s{", t.String())
		for i := 0; i < v.NumField(); i++ {
			f := v.Field(i)
			if skipType(f.Type()) {
				continue
			}
			d.walk(fieldValue(v, i), depth+1)
		}
		d.h.Write([]byte("}"))
	case reflect.Func, reflect.Chan, reflect.UnsafePointer:
		fmt.Fprintf(d.h, "%s;", t.String())
	}
}

// fieldValue returns field i of struct v in a form whose contents can be read
// even when the field is unexported.
func fieldValue(v reflect.Value, i int) reflect.Value {
	f := v.Field(i)
	if f.CanInterface() || !f.CanAddr() {
		return f
	}
	return reflect.NewAt(f.Type(), unsafe.Pointer(f.UnsafeAddr())).Elem()
}

// FieldDigests digests every field of the struct behind p separately, so that
// a purity violation can say which field changed.
func FieldDigests(p any) map[string]string {
	v := reflect.ValueOf(p)
	for v.Kind() == reflect.Ptr || v.Kind() == reflect.Interface {
		if v.IsNil() {
			return map[string]string{"": "nil"}
		}
		v = v.Elem()
	}
	out := map[string]string{}
	if v.Kind() != reflect.Struct {
		out[""] = DeepDigest(p)
		return out
	}
	for i := 0; i < v.NumField(); i++ {
		if skipType(v.Field(i).Type()) {
			continue
		}
		d := &digester{h: sha256.New(), seen: map[unsafe.Pointer]int{}}
		d.walk(fieldValue(v, i), 0)
		out[v.Type().Field(i).Name] = hex.EncodeToString(d.h.Sum(nil))[:16]
	}
	return out
}

// FirstChangedField names the first field (sorted) whose digest differs.
func FirstChangedField(before, after map[string]string) string {
	var ks []string
	for k := range before {
		ks = append(ks, k)
	}
	for k := range after {
		if _, ok := before[k]; !ok {
			ks = append(ks, k)
		}
	}
	sort.Strings(ks)
	for _, k := range ks {
		if before[k] != after[k] {
			return k
		}
	}
	return ""
}
