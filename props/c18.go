package props

import (
	"bytes"
	"fmt"
	"os"
	"path/filepath"
	"regexp"
	"strconv"
	"strings"

	"github.com/zerx-lab/wordZero/pkg/document"

	"verif/inspect"
	"verif/sim"
	"verif/simrt"
	"verif/world"
)

// C18 — rendering a document template changes only its placeholders.
type c18 struct{}

func init() { Register(c18{}) }

func (c18) ID() string     { return "C18" }
func (c18) Flavor() string { return "instr" }
func (c18) Runs(tier string) int {
	if tier == "thorough" {
		return 100000
	}
	return 4000
}

func (c18) Describe() Description {
	return Description{
		Rule: "one case = a base document built through the API (seeded body, formatting, tables, page settings, header/footer) with placeholders planted by the harness: each {{name}} cut at a " +
			"seeded position into 2-4 runs with different formatting, in body paragraphs, table cells, headers and footers, next to page-break runs and pictures, under every paragraph property; an " +
			"image placeholder; data with XML metacharacters, control characters, numbers and booleans, some placeholders deliberately without data. The base is loaded as a template and rendered " +
			"with RenderTemplateToDocument under a simulator-chosen map-iteration order and again under the reversed order; base and result are saved and parsed by the independent reader; the " +
			"result is also restarted (save/open/save). Oracle = a reference substitution applied to the base's parse: same element sequence; every paragraph's text equals the base text with " +
			"supplied placeholders replaced verbatim and unsupplied ones left; non-text runs (break, drawing, field, tab) still present in order; every character outside a placeholder keeps the run " +
			"properties it had; paragraph properties, table structure and properties and section settings equal by element path; header/footer texts substituted and well-formed; all other parts " +
			"canonically equal; both orders agree. Non-trivial = >= 2 placeholders of which >= 1 split across runs and >= 1 supplied; distinct = distinct fingerprints.",
		Assumptions: []string{"characters that XML 1.0 cannot represent are compared after the writer's U+FFFD substitution",
			"the search lane keeps template syntax out of values (listed under C16)"},
		RealVsStub: map[string]string{"real": "template engine clone and in-document substitution, writer, reader", "stub": "map iteration order; the reference substitution is simulator code"},
	}
}

func (c18) Nontrivial(c *sim.Case, st *sim.Stats) bool {
	return st.Probes["placeholders"] >= 2 && st.Probes["placeholders_split"] >= 1 && st.Probes["placeholders_supplied"] >= 1
}

var c18names = []string{"name", "title", "v1", "v2", "city", "n"}

func (c18) Gen(r *sim.Rand, c *sim.Case, tier string) {
	g := world.NewGen(r.Fork())
	g.Extra = true
	g.Alpha = []int{0, 4}
	g.Fam = world.FBody | world.FParaFmt
	for _, f := range []int{world.FTable, world.FTableFmt, world.FPage, world.FImage} {
		if r.Chance(0.5) {
			g.Fam |= f
		}
	}
	g.RectTablesOnly, g.NoCellList, g.WellFormedMath, g.NoTableTemplates, g.NoJPGName = true, true, true, true, true
	var ops []sim.Op
	if r.Chance(0.2) {
		// the template is a package written by another producer (its styles, theme, settings, numbering ... parts hold
		// content the library never generates): opened, given placeholders, rendered
		ops = append(ops, sim.Op{K: "foreign", I: []int{int(r.Uint64() >> 40), r.Intn(1 << 16), r.Intn(3)}})
		c.Cfg["foreign_base"] = 1
	}
	ops = append(ops, g.DocOps(0, r.Range(0, 6))...)
	fmtOp := func(k string, i []int, text string) sim.Op {
		op := sim.Op{K: k, I: append([]int{}, i...), S: []sim.Str{sim.Str(text)}}
		op.I = append(op.I, r.Intn(2), r.Intn(2), []int{0, 9, 12, 20}[r.Intn(4)], r.Intn(2), r.Intn(2))
		op.S = append(op.S, sim.Str([]string{"FF0000", "00AA00", "", "123456"}[r.Intn(4)]), sim.Str([]string{"Arial", "", "Courier New"}[r.Intn(3)]), sim.Str([]string{"", "yellow"}[r.Intn(2)]))
		op.I = append(op.I, 0)
		return op
	}
	np := r.Range(2, 5)
	for i := 0; i < np; i++ {
		name := c18names[r.Intn(len(c18names))]
		ph := "{{" + name + "}}"
		pre, post := fmt.Sprintf("pre%d ", i), fmt.Sprintf(" post%d", i)
		// cut the placeholder (with its surroundings) into 1..4 pieces at seeded positions
		full := pre + ph + post
		cuts := []int{}
		for k := r.Intn(4); k > 0; k-- {
			cuts = append(cuts, r.Range(len(pre), len(pre)+len(ph)))
		}
		// sort cuts
		for a := 1; a < len(cuts); a++ {
			for b := a; b > 0 && cuts[b] < cuts[b-1]; b-- {
				cuts[b], cuts[b-1] = cuts[b-1], cuts[b]
			}
		}
		var pieces []string
		last := 0
		for _, ct := range cuts {
			if ct > last && ct < len(full) {
				pieces = append(pieces, full[last:ct])
				last = ct
			}
		}
		pieces = append(pieces, full[last:])
		where := r.Intn(10)
		switch {
		case where < 6 || g.Fam&world.FTable == 0: // body paragraph
			ops = append(ops, sim.Op{K: "para", S: []sim.Str{sim.Str(pieces[0])}})
			for _, pc := range pieces[1:] {
				ops = append(ops, fmtOp("p.addtext", []int{-1}, pc))
			}
			if r.Chance(0.3) {
				ops = append(ops, sim.Op{K: "p.pbreak", I: []int{-1}})
			}
			if r.Chance(0.5) {
				ops = append(ops, sim.Op{K: r.Pick("p.keepnext", "p.keeplines", "p.widow", "p.pbb"), I: []int{-1, 1}})
			}
			if r.Chance(0.3) {
				ops = append(ops, sim.Op{K: "p.align", I: []int{-1}, S: []sim.Str{sim.Str(r.Pick("center", "right", "both"))}})
			}
		default: // table cell
			ops = append(ops, sim.Op{K: "t.new", I: []int{2, 2, 5000, 0, 1}, S: []sim.Str{sim.Str(pieces[0]), "static", "x", "y"}})
			for _, pc := range pieces[1:] {
				ops = append(ops, fmtOp("t.addftext", []int{-1, 0, 0}, pc))
			}
		}
		ops = append(ops, g.DocOps(0, r.Intn(3))...)
	}
	if r.Chance(0.5) {
		ops = append(ops, sim.Op{K: r.Pick("hdr", "ftr"), S: []sim.Str{sim.Str(r.Pick("default", "first")), sim.Str("HF {{" + c18names[r.Intn(len(c18names))] + "}} end")}})
		c.Cfg["hf"] = 1
	}
	if r.Chance(0.3) {
		ops = append(ops, sim.Op{K: "para", S: []sim.Str{"{{#image pic}}"}})
	}
	loop := r.Chance(0.3)
	if loop {
		hdr := "Item"
		if Wild {
			hdr = "Item {{title}}" // (placeholders in the static rows of a loop table are not substituted: listed finding)
		}
		ops = append(ops, sim.Op{K: "t.new", I: []int{3, 3, 6000, 0, 1}, S: []sim.Str{sim.Str(hdr), "Qty", "Note", "{{#each items}}{{f1}}", "{{qty}} pcs", "{{f2}}{{/each}}", "Total", "", "end"}})
		c.Cfg["loop"] = 1
	}
	// data
	d := &world.TData{Vars: map[string]any{}, Images: map[string][]int{"pic": world.TplImageSpec(r, []int{r.Intn(3), 6, 5, 424242})}}
	vals := []any{"plain", "Ünï 中文", "a<b>&\"c'", "  spaced  ", "", float64(r.Range(-5, 900)), 12.5, true, "tab\there", "ctl\x01char",
		// text that looks like markup that was escaped already: it is text, and comes out as it went in
		"write &amp; for an ampersand", "&lt;b&gt; &quot;q&quot; &apos;", "bell &#7; and &#x41; and &#65;", "&amp;amp; &unknown; &#;"}
	if Wild {
		vals = append(vals, "{{title}}")
	}
	for _, n := range c18names {
		if r.Chance(0.7) {
			d.Vars[n] = vals[r.Intn(len(vals))]
		}
	}
	if loop && r.Chance(0.85) {
		d.Lists = map[string][]any{"items": {}}
		for i := r.Intn(4); i > 0; i-- {
			d.Lists["items"] = append(d.Lists["items"], map[string]any{"f1": fmt.Sprintf("thing%d", i), "qty": float64(r.Range(1, 99)), "f2": vals[r.Intn(5)]})
		}
	}
	if r.Chance(0.3) {
		// the template is a document that was saved and opened again (a template file): it carries the parts a
		// package has on disk (a styles part among them), and the rendering must carry them unchanged too
		ops = append(ops, sim.Op{K: "restart", I: []int{r.Intn(2), r.Intn(3)}})
		c.Cfg["reopened_base"] = 1
	}
	ops = append(ops, sim.Op{K: "c18.render", S: []sim.Str{sim.Str(d.JSON())}})
	c.Tasks = [][]sim.Op{ops}
	c.Order = orderPolicy(r)
	c.OrderSeed = r.Uint64()
}

var phRe = regexp.MustCompile(`\{\{(\w+)\}\}`)

func xmlSafe(s string) string {
	var sb strings.Builder
	for _, r := range s {
		if r == 0x9 || r == 0xA || r == 0xD || (r >= 0x20 && r <= 0xD7FF) || (r >= 0xE000 && r <= 0xFFFD) || (r >= 0x10000 && r <= 0x10FFFF) {
			sb.WriteRune(r)
		} else {
			sb.WriteRune(0xFFFD)
		}
	}
	return sb.String()
}

// refSubst replaces supplied placeholders; returns the new text and, for every
// output byte, the index of the input byte it came from (-1 inside a value).
func refSubst(s string, vars map[string]any) (string, []int) {
	var out strings.Builder
	var src []int
	last := 0
	for _, m := range phRe.FindAllStringSubmatchIndex(s, -1) {
		name := s[m[2]:m[3]]
		v, ok := vars[name]
		if !ok {
			continue
		}
		for i := last; i < m[0]; i++ {
			src = append(src, i)
		}
		out.WriteString(s[last:m[0]])
		val := xmlSafe(refStr(v))
		out.WriteString(val)
		for range []byte(val) {
			src = append(src, -1)
		}
		last = m[1]
	}
	for i := last; i < len(s); i++ {
		src = append(src, i)
	}
	out.WriteString(s[last:])
	return out.String(), src
}

type c18para struct {
	text    string
	fmtAt   []string // per byte of text: digest of the run properties
	nontext []string // names of non-text run children, in order
	node    *inspect.Node
}

// findSkipping returns the descendant elements {space}local outside the skipped subtrees.
func findSkipping(n *inspect.Node, space, local string, skip map[*inspect.Node]bool) []*inspect.Node {
	var out []*inspect.Node
	var rec func(x *inspect.Node)
	rec = func(x *inspect.Node) {
		if skip[x] {
			return
		}
		if x.Is(space, local) {
			out = append(out, x)
		}
		for _, k := range x.Kids {
			if k.Local != "" {
				rec(k)
			}
		}
	}
	rec(n)
	return out
}

func c18paras(root *inspect.Node, skip map[*inspect.Node]bool) []c18para {
	var out []c18para
	for _, p := range findSkipping(root, inspect.NsW, "p", skip) {
		var cp c18para
		cp.node = p
		for _, r := range p.Children(inspect.NsW, "r") {
			rp := ""
			if x := r.Child(inspect.NsW, "rPr"); x != nil {
				var sb strings.Builder
				canonNode(&sb, x)
				rp = inspect.Hash(sb.String())
			}
			for _, k := range r.Elems() {
				switch k.Local {
				case "t":
					t := k.InnerText()
					cp.text += t
					for range []byte(t) {
						cp.fmtAt = append(cp.fmtAt, rp)
					}
				case "rPr":
				default:
					cp.nontext = append(cp.nontext, k.Name())
				}
			}
		}
		out = append(out, cp)
	}
	return out
}

// skeleton removes runs from paragraphs so that only structure and properties remain.
func skeleton(n *inspect.Node, skip map[*inspect.Node]bool) *inspect.Node {
	c := &inspect.Node{Space: n.Space, Local: n.Local, Attrs: n.Attrs, Text: n.Text}
	for _, k := range n.Kids {
		if k.Local == "" || skip[k] {
			continue
		}
		if n.Is(inspect.NsW, "p") && (k.Is(inspect.NsW, "r")) {
			continue
		}
		sk := skeleton(k, skip)
		// a property container without content says nothing: <w:pPr/> equals no w:pPr
		if (sk.Local == "pPr" || sk.Local == "rPr" || sk.Local == "tcPr" || sk.Local == "tblPr" || sk.Local == "trPr") && len(sk.Kids) == 0 && len(sk.Attrs) == 0 {
			continue
		}
		c.Kids = append(c.Kids, sk)
	}
	return c
}

func (c18) Exec(c *sim.Case, env *Env) []sim.Violation {
	document.VerifResetProcessState()
	dir := env.MkTmp("c18")
	defer os.RemoveAll(dir)
	var viol []sim.Violation
	seen := map[string]bool{}
	add := func(clause, sig, detail string) {
		if !seen[clause+sig] {
			seen[clause+sig] = true
			viol = append(viol, sim.Violation{Clause: clause, Sig: sig, Detail: detail})
		}
	}
	simrt.InstallOrder(c.Order, c.OrderSeed, 0, nil)
	defer simrt.Uninstall()
	w := world.New(env.Stats, env.Log, dir)
	var data *world.TData
	for _, op := range c.Tasks[0] {
		if op.K == "c18.render" {
			data = world.ParseTData(op.Str(0))
			break
		}
		// "-1" addresses the paragraph / table created last
		if len(op.I) > 0 && op.I[0] == -1 {
			op.I = append([]int{}, op.I...)
			if strings.HasPrefix(op.K, "t.") {
				op.I[0] = len(w.Doc(0).Tables) - 1
			} else {
				op.I[0] = len(w.Doc(0).Paras) - 1
			}
		}
		if o := w.Apply(op); o.Panic != "" {
			return nil // building the base is not this property's business
		}
	}
	base := w.Doc(0)
	if data == nil || base.Dead {
		return nil
	}
	b0, err := base.D.ToBytes()
	if err != nil {
		return nil
	}
	baseDigest := DeepDigest(base.D)
	render := func(policy string) ([]byte, *document.Document, string) {
		simrt.Uninstall()
		simrt.InstallOrder(policy, c.OrderSeed, 0, nil)
		eng := document.NewTemplateEngine()
		var d *document.Document
		var out []byte
		var rerr error
		sig, pn := Guard(func() {
			if c.Run%2 == 1 {
				// engine history: the engine has rendered ANOTHER template before, whose headers and footers of every kind
				// hold no placeholder (same part names as this case's). What an engine did for one template is nothing to the next.
				decoy := document.New()
				for _, k := range []document.HeaderFooterType{document.HeaderFooterTypeDefault, document.HeaderFooterTypeFirst, document.HeaderFooterTypeEven} {
					_ = decoy.AddHeader(k, "plain header")
					_ = decoy.AddFooter(k, "plain footer")
				}
				decoy.AddParagraph("plain body")
				if _, e := eng.LoadTemplateFromDocument("earlier", decoy); e == nil {
					_, _ = eng.RenderTemplateToDocument("earlier", document.NewTemplateData())
				}
			}
			if _, e := eng.LoadTemplateFromDocument("t", base.D); e != nil {
				rerr = e
				return
			}
			d, rerr = eng.RenderTemplateToDocument("t", data.ToLibIn(filepath.Join(dir, "tplimg")))
			if rerr == nil && d != nil {
				out, rerr = d.ToBytes()
			}
		})
		if pn {
			return nil, nil, "panic:" + sig
		}
		if rerr != nil {
			return nil, nil, "error:" + rerr.Error()
		}
		return out, d, ""
	}
	b1, rendered, fail := render(c.Order)
	if strings.HasPrefix(fail, "panic:") {
		return []sim.Violation{{Clause: "panic", Sig: fail[6:], Detail: "rendering a document template panicked"}}
	}
	if fail != "" {
		return []sim.Violation{{Clause: "render-failed", Sig: "error", Detail: fail}}
	}
	if DeepDigest(base.D) != baseDigest {
		add("base-modified", "base-document", "rendering changed the base document")
	}
	pb, e0 := inspect.ReadZip(b0)
	pr, e1 := inspect.ReadZip(b1)
	if e0 != nil || e1 != nil {
		return viol
	}
	rb, e0 := inspect.ParseXML(pb.Parts["word/document.xml"])
	rr, e1 := inspect.ParseXML(pr.Parts["word/document.xml"])
	if e0 != nil {
		return viol
	}
	if e1 != nil {
		add("result-ill-formed", "word/document.xml:"+xmlErrClass(e1), e1.Error())
		return viol
	}
	hasImagePH := strings.Contains(string(pb.Parts["word/document.xml"]), "{{#image")
	// ---- paragraphs: text, non-text runs, character formatting
	// tables that contain a row loop are compared by their own oracle (below) and left out of the generic comparison
	skip := map[*inspect.Node]bool{}
	tb, tr := rb.Child(inspect.NsW, "body").Children(inspect.NsW, "tbl"), rr.Child(inspect.NsW, "body").Children(inspect.NsW, "tbl")
	var loopTables [][2]*inspect.Node
	if len(tb) == len(tr) {
		for i := range tb {
			if strings.Contains(tb[i].InnerText(), "{{#each") {
				skip[tb[i]], skip[tr[i]] = true, true
				loopTables = append(loopTables, [2]*inspect.Node{tb[i], tr[i]})
			}
		}
	} else {
		add("structure", "table-count", fmt.Sprintf("the base has %d top-level tables, the result %d", len(tb), len(tr)))
	}
	bp, rp := c18paras(rb, skip), c18paras(rr, skip)
	if len(bp) != len(rp) {
		add("structure", "paragraph-count", fmt.Sprintf("the base has %d paragraphs, the result %d", len(bp), len(rp)))
	} else {
		for i := range bp {
			env.Stats.ProbeN("placeholders", int64(len(phRe.FindAllString(bp[i].text, -1))))
			if strings.Contains(bp[i].text, "{{#image") {
				continue // replaced by a picture: C10's oracle
			}
			want, src := refSubst(bp[i].text, data.Vars)
			if want != bp[i].text {
				env.Stats.Probe("placeholders_supplied")
				if len(bp[i].node.Children(inspect.NsW, "r")) > 1 {
					env.Stats.Probe("placeholders_split")
				}
			}
			if rp[i].text != want {
				cls := "text"
				switch {
				case len(phRe.FindAllString(want, -1)) > len(phRe.FindAllString(rp[i].text, -1)):
					cls = "unsupplied-placeholder-vanished"
				case want != bp[i].text && rp[i].text == bp[i].text:
					cls = "supplied-placeholder-not-replaced"
				}
				add("paragraph-text", cls, fmt.Sprintf("paragraph %d: base %q, reference substitution %q, rendered %q", i, clip(bp[i].text), clip(want), clip(rp[i].text)))
				continue
			}
			if strings.Join(bp[i].nontext, ",") != strings.Join(rp[i].nontext, ",") {
				cls := "changed-paragraph"
				if want == bp[i].text {
					cls = "untouched-paragraph"
				}
				cls += ":" + lostKinds(bp[i].nontext, rp[i].nontext)
				add("non-text-runs", cls, fmt.Sprintf("paragraph %d had non-text run content [%s], the result has [%s]", i, strings.Join(bp[i].nontext, ","), strings.Join(rp[i].nontext, ",")))
			}
			for k := range src {
				if src[k] >= 0 && k < len(rp[i].fmtAt) && src[k] < len(bp[i].fmtAt) && rp[i].fmtAt[k] != bp[i].fmtAt[src[k]] {
					cls := "changed-paragraph"
					if want == bp[i].text {
						cls = "untouched-paragraph"
					}
					add("run-formatting", cls, fmt.Sprintf("paragraph %d: the character at byte %d (outside any placeholder) no longer has the run properties it had", i, k))
					break
				}
			}
		}
	}
	// ---- structure and properties by element path
	// a paragraph that held an image placeholder becomes a picture paragraph (C10's oracle): it is left out on both sides
	if len(bp) == len(rp) {
		for i := range bp {
			if strings.Contains(bp[i].text, "{{#image") {
				skip[bp[i].node], skip[rp[i].node] = true, true
			}
		}
	}
	for _, d := range TreeDiffAll(skeleton(rb, skip), skeleton(rr, skip)) {
		if hasImagePH && strings.Contains(d[0], "w:drawing") {
			continue
		}
		add("lost-on-render", "word/document.xml:"+d[0], d[1])
	}
	// ---- row loops: one row per item, fields substituted, the other rows substituted like any paragraph
	for _, lt := range loopTables {
		c18loopTable(lt[0], lt[1], data, add, env.Stats)
	}
	// ---- other parts
	for _, n := range pb.SortedNames() {
		if n == "word/document.xml" {
			continue
		}
		db, ok := pr.Parts[n]
		if !ok {
			add("part-lost", normPart(n), "part "+n+" of the base is not in the rendered document")
			continue
		}
		isHF := strings.HasPrefix(n, "word/header") || strings.HasPrefix(n, "word/footer")
		if isHF {
			hr, err := inspect.ParseXML(db)
			if err != nil {
				add("result-ill-formed", normPart(n)+":"+xmlErrClass(err), n+": "+err.Error())
				continue
			}
			hb, err := inspect.ParseXML(pb.Parts[n])
			if err != nil {
				continue
			}
			tb, tr := "", ""
			for _, t := range hb.Find(inspect.NsW, "t") {
				tb += t.InnerText()
			}
			for _, t := range hr.Find(inspect.NsW, "t") {
				tr += t.InnerText()
			}
			want, _ := refSubst(tb, data.Vars)
			if tr != want {
				add("header-footer-text", "substitution", fmt.Sprintf("%s: base %q, reference %q, rendered %q", n, clip(tb), clip(want), clip(tr)))
			}
			continue
		}
		if hasImagePH && (n == "[Content_Types].xml" || n == "word/_rels/document.xml.rels") {
			continue // the picture adds a relationship and maybe a content type
		}
		if n == "_rels/.rels" {
			// package-level relationships: which id a relationship carries is not content (the rendering is a new package);
			// which parts the package declares, and as what, is
			br, _ := pb.Rels(n)
			rels2, _ := pr.Rels(n)
			have := map[string]bool{}
			for _, x := range rels2 {
				have[x.Type+"\x00"+x.Target+"\x00"+x.Mode] = true
			}
			for _, x := range br {
				if !have[x.Type+"\x00"+x.Target+"\x00"+x.Mode] {
					add("part-changed", "_rels/.rels:package-relationship-lost", fmt.Sprintf("the base package declares %s (%s); the rendered package does not", x.Target, x.Type))
					break
				}
			}
			continue
		}
		ca, _ := CanonXML(pb.Parts[n])
		cb, _ := CanonXML(db)
		if looksXML(n, db) {
			if ca != cb {
				add("part-changed", normPart(n), "part "+n+" differs between base and rendered document")
			}
		} else if string(db) != string(pb.Parts[n]) {
			add("part-changed", normPart(n), "binary part "+n+" differs")
		}
	}
	// ---- a second render from the same cached template (with a picture of another format) must not reach into the first one
	if rendered != nil {
		simrt.Uninstall()
		simrt.InstallOrder(c.Order, c.OrderSeed, 0, nil)
		eng := document.NewTemplateEngine()
		var dA *document.Document
		var bA1, bA2 []byte
		thirdMiss := ""
		sig, pn := Guard(func() {
			if _, e := eng.LoadTemplateFromDocument("t", base.D); e != nil {
				return
			}
			dA, _ = eng.RenderTemplateToDocument("t", data.ToLibReplacing(filepath.Join(dir, "tplimg")))
			if dA == nil {
				return
			}
			other := *data
			other.Images = map[string][]int{}
			for k, v := range data.Images {
				nv := append([]int{}, v...)
				if len(nv) >= 4 {
					nv[0], nv[3] = (nv[0]+1)%3, nv[3]+1
				}
				other.Images[k] = nv
			}
			dB, _ := eng.RenderTemplateToDocument("t", other.ToLibReplacing(filepath.Join(dir, "tplimg")))
			if dB != nil {
				_, _ = dB.AddImageFromData(world.MakeImage("gif", 3, 3, 9191), "late.gif", document.ImageFormatGIF, 3, 3, nil)
				_ = dB.AddFooter(document.HeaderFooterTypeEven, "later footer")
			}
			bA2, _ = dA.ToBytes()
			// a third render gives the placeholder another picture of the SAME format (through the same file name when the picture
			// comes from a file): the rendering must show the bytes supplied for it, not those an earlier render was given
			if hasImagePH && len(data.Images) > 0 {
				third := *data
				third.Images = map[string][]int{}
				for k, v := range data.Images {
					nv := append([]int{}, v...)
					if len(nv) >= 4 {
						nv[3] += 2
					}
					third.Images[k] = nv
				}
				if dC, _ := eng.RenderTemplateToDocument("t", third.ToLibReplacing(filepath.Join(dir, "tplimg"))); dC != nil {
					if bC, err := dC.ToBytes(); err == nil {
						if pk, err := inspect.ReadZip(bC); err == nil {
							for _, k := range sim.SortedKeys(third.Images) {
								want, found := third.ImageBytes(k), false
								for _, n := range pk.SortedNames() {
									if strings.HasPrefix(n, "word/media/") && bytes.Equal(pk.Parts[n], want) {
										found = true
									}
								}
								if want != nil && !found {
									thirdMiss = "the picture supplied for {{#image " + k + "}} in a later render of the same engine is in no media part of the result"
								}
							}
						}
					}
				}
			}
		})
		if thirdMiss != "" {
			add("image-placeholder", "later-render-shows-other-bytes", thirdMiss)
		}
		if pn {
			add("panic", sig, "a second render from the cached template panicked")
		} else if dA != nil && bA2 != nil {
			bA1 = b1
			c1, e1 := CanonPackage(bA1)
			c2, e2 := CanonPackage(bA2)
			if e1 == nil && e2 == nil {
				if sg, det := PkgDiff(c1, c2); sg != "" {
					add("render-reaches-into-earlier-render", sg, "a document rendered earlier from the same cached template changed when a later render was made and extended: "+det)
				}
			}
			if _, wf := CheckWellFormed(bA2); len(wf) > 0 {
				add("render-reaches-into-earlier-render", wf[0].Clause+":"+wf[0].Sig, wf[0].Detail)
			} else if pk, err := inspect.ReadZip(bA2); err == nil {
				if rv := CheckRels(pk); len(rv) > 0 {
					add("render-reaches-into-earlier-render", rv[0].Clause+":"+rv[0].Sig, rv[0].Detail)
				}
			}
		}
	}
	// ---- order independence
	if b2, _, f2 := render("reverse"); f2 == "" {
		c1, e1 := CanonPackage(b1)
		c2, e2 := CanonPackage(b2)
		if e1 == nil && e2 == nil {
			if sg, det := PkgDiff(c1, c2); sg != "" {
				add("depends-on-map-order", sg, "rendering under the reversed map order gives another document: "+det)
			}
		}
	}
	// ---- the result survives a restart like any document (C03's listed losses excepted: compare texts only)
	if rendered != nil {
		if d2, err := w.OpenBytes(b1, int(c.OrderSeed%3)); err == nil && d2 != nil && d2.Body != nil {
			if docText(d2) != xmlSafe(docText(rendered)) {
				add("restart-of-result", "paragraph-texts", "the rendered document reads differently after save+open")
			}
		}
	}
	env.Log.Event("render %s", sim.Digest(b1))
	if c.Lane != "B" && !Wild {
		// the search lane reports everything it finds (each difference path is its own signature)
	}
	return viol
}

func (c18) Witnesses() []*sim.Case { return c18Witnesses() }

var _ = strconv.Itoa

// lostKinds names the kinds of non-text run content that a has and b lacks.
func lostKinds(a, b []string) string {
	have := map[string]int{}
	for _, x := range b {
		have[x]++
	}
	seen := map[string]bool{}
	var out []string
	for _, x := range a {
		if have[x] > 0 {
			have[x]--
			continue
		}
		if !seen[x] {
			seen[x] = true
			out = append(out, x)
		}
	}
	if len(out) == 0 {
		return "reordered-or-added"
	}
	sortStrings(out)
	return strings.Join(out, "+")
}

var eachOpenRe = regexp.MustCompile(`\{\{#each\s+(\w+)\}\}`)

func rowTexts(tr *inspect.Node) []string {
	var out []string
	for _, tc := range tr.Children(inspect.NsW, "tc") {
		t := ""
		for _, x := range tc.Find(inspect.NsW, "t") {
			t += x.InnerText()
		}
		out = append(out, t)
	}
	return out
}

// c18loopTable: the reference expansion of a table whose one row holds {{#each list}} … {{/each}}.
func c18loopTable(base, res *inspect.Node, data *world.TData, add func(clause, sig, detail string), st *sim.Stats) {
	var want [][]string
	var kind []string // per expected row: "static" | "static-with-supplied-placeholder" | "item"
	for _, tr := range base.Children(inspect.NsW, "tr") {
		cells := rowTexts(tr)
		joined := strings.Join(cells, "\x00")
		m := eachOpenRe.FindStringSubmatch(joined)
		if m == nil {
			var row []string
			k := "static"
			for _, c := range cells {
				t, _ := refSubst(c, data.Vars)
				if t != c {
					k = "static-with-supplied-placeholder"
				}
				row = append(row, t)
			}
			want = append(want, row)
			kind = append(kind, k)
			continue
		}
		for _, it := range data.Lists[m[1]] {
			im, _ := it.(map[string]any)
			var row []string
			for _, c := range cells {
				c = eachOpenRe.ReplaceAllString(c, "")
				c = strings.ReplaceAll(c, "{{/each}}", "")
				t, _ := refSubst(c, im)
				row = append(row, t)
			}
			want = append(want, row)
			kind = append(kind, "item")
		}
		st.Probe("row_loops")
	}
	var got [][]string
	for _, tr := range res.Children(inspect.NsW, "tr") {
		got = append(got, rowTexts(tr))
	}
	if len(got) != len(want) {
		add("row-loop", "row-count", fmt.Sprintf("the expanded table has %d rows, the reference expansion %d", len(got), len(want)))
		return
	}
	for i := range want {
		if strings.Join(got[i], "\x00") != strings.Join(want[i], "\x00") {
			cls := kind[i] + "-row"
			add("row-loop", cls, fmt.Sprintf("row %d of the expanded table reads %q, the reference expansion %q", i, got[i], want[i]))
			return
		}
	}
}
