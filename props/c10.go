package props

import (
	"fmt"
	"strconv"
	"strings"

	"verif/foreign"
	"verif/inspect"
	"verif/sim"
	"verif/world"
)

// C10 — every picture shows exactly the image bytes it was given, at the requested size.
type c10 struct{}

func init() { Register(c10{}) }

func (c10) ID() string     { return "C10" }
func (c10) Flavor() string { return "instr" }
func (c10) Runs(tier string) int {
	if tier == "thorough" {
		return 100000
	}
	return 4000
}

func (c10) Describe() Description {
	return Description{
		Rule: "one case = a seeded history of image additions - body, table cell, from a file (also missing and truncated files), template placeholder through a render - over PNG/JPEG/GIF encodings " +
			"generated with unique pixels per image (bytes identify the operation), arbitrary original file names (equal, non-ASCII, no extension, misleading extension, upper case), every size " +
			"configuration (explicit w x h mm, one dimension + keep-aspect, none, one dimension without keep-aspect, nil config), interleaved with headers/footers, list items, notes, body edits, " +
			"save events, document restarts, process restarts and (a quarter of the cases) starting from a foreign-producer package whose media follow other naming patterns. Light model = per " +
			"document the list of pictures (alt-text tag, bytes, pixel size, size configuration). At EVERY save event, for every picture of the main part incl. table cells (independent parser): " +
			"a:blip/@r:embed -> relationship of image type -> target part exists -> its bytes equal the model's bytes for THAT picture; no picture lost or duplicated; wp:extent and a:ext agree " +
			"and equal the sizing rule within 2 EMU; a failed AddImageFromFile adds nothing. Non-trivial = >= 2 pictures and (>= 1 restart or >= 2 saves); distinct = distinct fingerprints.",
		Assumptions: []string{"pictures are identified by the unique alt text the workload gives them; pictures without alt text (nil config, template placeholders, foreign) are matched by bytes, each model entry at most once"},
		RealVsStub:  map[string]string{"real": "image API, media naming, relationship allocation, reader, template engine", "stub": "map iteration order; foreign producer"},
	}
}

func (c10) Nontrivial(c *sim.Case, st *sim.Stats) bool {
	return st.Probes["pictures_checked"] >= 2 && (st.Probes["restart_doc"]+st.Probes["restart_process"] >= 1 || st.Probes["save_events"] >= 2)
}

func (c10) Gen(r *sim.Rand, c *sim.Case, tier string) {
	g := world.NewGen(r)
	g.Extra = true
	g.Alpha = []int{0}
	g.Fam = world.FImage | world.FBody
	for _, f := range []int{world.FHF, world.FList, world.FNote, world.FTable, world.FPage} {
		if r.Chance(0.4) {
			g.Fam |= f
		}
	}
	g.RectTablesOnly = true
	var ops []sim.Op
	if r.Chance(0.25) {
		flags := (int(r.Uint64()) & foreign.FAllBits) | foreign.FBodyImages
		flags &^= foreign.FNestedRuns
		ops = append(ops, sim.Op{K: "foreign", I: []int{int(r.Uint64() >> 40), flags, r.Intn(3)}})
		c.Cfg["foreign"] = 1
	}
	if c.Cfg["foreign"] == 0 && r.Chance(0.2) {
		// pictures in the cells of a table nested in a table cell (and one in the outer table)
		ops = append(ops, sim.Op{K: "t.new", I: []int{2, 2, 5000, 0, 0}},
			sim.Op{K: "t.nested", I: []int{0, r.Intn(2), r.Intn(2), r.Range(1, 2), r.Range(1, 2), 3000, 0, 0}})
		for k, m := 0, r.Range(1, 3); k < m; k++ {
			f := r.Intn(3)
			tbl := 1000
			if k == 1 {
				tbl = 0
			}
			ops = append(ops, sim.Op{K: "cellimg", I: []int{f, r.Range(1, 30), r.Range(1, 30), 300000 + k*7919 + r.Intn(1000), r.Intn(4), 0, 0, 0, tbl, r.Intn(2), r.Intn(2)},
				F: []float64{float64(r.Range(5, 80)), float64(r.Range(5, 80)), 0, 0}, S: []sim.Str{sim.Str(g.ImageName(f)), sim.Str(fmt.Sprintf("nested-pic-%d", k)), "t"}})
		}
	}
	sideTable := c.Cfg["foreign"] == 0 && r.Chance(0.12)
	n := r.Range(3, 20)
	for len(ops) < n {
		switch x := r.Intn(10); {
		case x < 5:
			op := g.DocOps(0, 1)[0]
			ops = append(ops, op)
		case x < 8: // an image for sure
			f := r.Intn(3)
			op := sim.Op{K: "img", I: []int{f, r.Range(1, 48), r.Range(1, 48), 100000 + len(ops)*7919 + r.Intn(1000), []int{0, 1, 2, 3, 4, 9}[r.Intn(6)], r.Intn(4), r.Intn(5), r.Intn(4)},
				F: []float64{float64(r.Range(5, 150)), float64(r.Range(5, 150)), float64(r.Intn(20)), float64(r.Intn(20))},
				S: []sim.Str{sim.Str(g.ImageName(f)), sim.Str(g.PlainText()), sim.Str(g.PlainText())}}
			if r.Chance(0.3) {
				op.K = "imgfile"
				op.I = append(op.I, []int{0, 0, 0, 1, 2}[r.Intn(5)])
			}
			ops = append(ops, op)
		default:
			ops = append(ops, sim.Op{K: r.Pick("hdr", "ftr"), S: []sim.Str{sim.Str(r.Pick("default", "first", "even")), "hf"}})
		}
	}
	if sideTable {
		// a table is built on the side, gets a picture, the document is saved (and some more pictures are added), and only then the
		// table goes into the body: its picture must show what it was given like every other one
		f := r.Intn(3)
		k := r.Intn(len(ops) + 1)
		side := []sim.Op{{K: "t.create", I: []int{2, 2, 5000, 0, 0}},
			{K: "cellimg", I: []int{f, r.Range(2, 30), r.Range(2, 30), 440000 + r.Intn(1000), 0, 0, 0, 0, 2000, r.Intn(2), r.Intn(2)}, F: []float64{30, 20, 0, 0}, S: []sim.Str{sim.Str(g.ImageName(f)), "side-table-picture", "t"}},
			{K: "save", I: []int{r.Intn(2)}}}
		rest := append([]sim.Op{}, ops[k:]...)
		ops = append(append(ops[:k:k], side...), rest...)
		ops = append(ops, sim.Op{K: "t.attach"}, sim.Op{K: "save", I: []int{r.Intn(2)}})
	}
	ops = sprinkleSaves(r, ops, 0, r.Range(2, 7), 0.45, 0.1)
	if c.Cfg["foreign"] == 0 && r.Chance(0.25) {
		// the document becomes a template with an image placeholder; renders get different pictures
		ops = append(ops, sim.Op{K: "para", S: []sim.Str{"{{#image pic}}"}})
		shared := btoiP(r.Chance(0.35)) // a mail merge: one data object with one logo for both renders
		first := world.TplImageSpec(r, []int{r.Intn(3), r.Range(2, 30), r.Range(2, 30), 555000})
		// read fault (some cases): the picture file of the first render is missing when the engine wants it; the second render's picture
		// has the same format, i.e. comes from a file of the same name that exists
		faulted := shared == 0 && r.Chance(0.3)
		for d := 1; d <= 2; d++ {
			pic := world.TplImageSpec(r, []int{r.Intn(3), r.Range(2, 30), r.Range(2, 30), 555000 + d})
			if shared == 1 {
				pic = first
			}
			fl := 0
			if faulted {
				pic[0], pic[7] = first[0], []int{1, 3}[d%2] // both through a file, same format
				if d == 1 {
					fl = 1
				}
			}
			data := &world.TData{Vars: map[string]any{"name": fmt.Sprintf("N%d", d)}, Images: map[string][]int{"pic": pic}}
			ops = append(ops, sim.Op{K: "tpl.render", D: d, I: []int{0, 1, 0, shared, 1, fl}, S: []sim.Str{sim.Str(data.JSON())}})
		}
		for d := 2; d >= 1; d-- {
			f := r.Intn(3)
			ops = append(ops, sim.Op{K: "img", D: d, I: []int{f, 9, 7, 777000 + d, 1, 0, 0, 0}, F: []float64{30, 20, 0, 0}, S: []sim.Str{sim.Str(g.ImageName(f)), sim.Str(g.PlainText()), "t"}})
		}
		for d := 1; d <= 2; d++ {
			ops = append(ops, sim.Op{K: "save", D: d, I: []int{r.Intn(2)}})
		}
		c.Cfg["template"] = 1
	}
	c.Tasks = [][]sim.Op{ops}
	c.Order = orderPolicy(r)
	c.OrderSeed = r.Uint64()
}

type c10pic struct {
	alt      string
	hash     string
	pw, ph   int
	mode     int
	wmm, hmm float64
	extent   bool // the sizing rule is known for this picture
	optional bool // a picture the foreign producer put there: if it is still shown it must show its own bytes, but its survival is not this property's claim
}

func (p c10pic) expectedExtent() (int64, int64) {
	w, h := int64(p.pw)*9525, int64(p.ph)*9525
	switch p.mode {
	case 1:
		if p.wmm > 0 && p.hmm > 0 {
			return int64(p.wmm * 36000), int64(p.hmm * 36000)
		}
	case 2:
		if p.wmm > 0 {
			w = int64(p.wmm * 36000)
			h = int64(float64(w) * float64(p.ph) / float64(p.pw))
		}
	case 3:
		if p.hmm > 0 {
			h = int64(p.hmm * 36000)
			w = int64(float64(h) * float64(p.pw) / float64(p.ph))
		}
	}
	return w, h
}

func (c10) Exec(c *sim.Case, env *Env) []sim.Violation {
	model := map[int][]c10pic{}
	pending := map[int][]c10pic{}
	renderFailed := ""
	obs := &histObserver{panics: true}
	obs.after = func(w *world.World, op sim.Op, ds *world.Doc, o *world.Obs) {
		if o.Skipped || ds.Dead {
			return
		}
		switch op.K {
		case "img", "imgfile", "cellimg":
			if o.Err != nil {
				w.Stats.Probe("image_add_failed")
				return
			}
			data, _, pw, ph := world.ImageOf(op)
			if op.K == "imgfile" && op.Int(8) == 1 {
				data = data[:len(data)/3]
			}
			p := c10pic{hash: sim.Digest(data), pw: pw, ph: ph, mode: op.Int(4), wmm: op.Flt(0), hmm: op.Flt(1), extent: true}
			if op.Int(4) != 9 {
				p.alt = op.Str(1)
			}
			if op.K == "cellimg" {
				p.alt = op.Str(1)
				if p.mode > 3 {
					p.mode = 0
				}
			}
			if op.K == "imgfile" && op.Int(8) == 1 {
				p.extent = false // dimensions of a truncated file are whatever its header says
			}
			if op.K == "cellimg" && op.Int(8) >= 2000 {
				pending[ds.Slot] = append(pending[ds.Slot], p) // in a table that is not in the body yet: shown once the table is attached
				return
			}
			model[ds.Slot] = append(model[ds.Slot], p)
		case "t.attach":
			model[ds.Slot] = append(model[ds.Slot], pending[ds.Slot]...)
			pending[ds.Slot] = nil
		case "foreign":
			model[ds.Slot] = nil
			if ds.Foreign != nil {
				for _, m := range ds.Foreign.MediaMain {
					model[ds.Slot] = append(model[ds.Slot], c10pic{hash: sim.Digest(ds.Foreign.Parts[m]), optional: true})
				}
			}
		case "tpl.render":
			if o.Err != nil {
				if op.Int(5) != 1 && !o.Skipped {
					// (a render whose picture file was taken away may fail; any other render of these valid templates and pictures must not)
					renderFailed = fmt.Sprintf("rendering into document %d failed although its picture and template are valid: %v", ds.Slot, o.Err)
				}
				return
			}
			if op.Int(5) == 1 {
				w.Extra[fmt.Sprintf("c10loose%d", ds.Slot)] = true // rendered without its picture file: whatever came out, the count clause is off
			}
			cp := append([]c10pic{}, model[op.Int(0)]...)
			if d := world.ParseTData(op.Str(0)); d != nil && w.Extra[fmt.Sprintf("c10ph%d", op.Int(0))] == true {
				if b := d.ImageBytes("pic"); b != nil {
					// the placeholder's picture: the bytes given, at the size its configuration asks for (pixel size without one)
					pic := d.Images["pic"]
					wmm, hmm := d.ImageMM("pic")
					cp = append(cp, c10pic{hash: sim.Digest(b), alt: d.ImageAlt("pic"), pw: pic[1], ph: pic[2], mode: d.ImageMode("pic"), wmm: wmm, hmm: hmm, extent: true})
				}
			}
			model[ds.Slot] = cp
			// what the base document's history says about its pictures holds for the rendering too (Appendix B12)
			if w.Extra[fmt.Sprintf("c10loose%d", op.Int(0))] == true {
				w.Extra[fmt.Sprintf("c10loose%d", ds.Slot)] = true
			}
		case "para":
			if strings.Contains(op.Str(0), "{{#image pic}}") {
				w.Extra[fmt.Sprintf("c10ph%d", ds.Slot)] = true // the document now holds the image placeholder the template scenario fills
			}
		case "rm.para", "rm.parai", "rm.elem", "t.delrow", "t.delcol", "t.clearcell", "t.clear", "t.mergeh", "t.mergev", "t.settext", "t.setftext":
			// an edit that can remove a picture: the count clause is off for this document from here on
			w.Extra[fmt.Sprintf("c10loose%d", ds.Slot)] = true
		}
	}
	obs.onSave = func(w *world.World, ds *world.Doc, b []byte) []sim.Violation {
		pkg, err := inspect.ReadZip(b)
		if err != nil {
			return nil
		}
		root, err := inspect.ParseXML(pkg.Parts["word/document.xml"])
		if err != nil {
			return nil
		}
		rels, _ := pkg.Rels("word/_rels/document.xml.rels")
		byID := map[string][]inspect.Rel{}
		for _, r := range rels {
			byID[r.ID] = append(byID[r.ID], r)
		}
		want := model[ds.Slot]
		used := make([]bool, len(want))
		byAlt := map[string]int{}
		for i, p := range want {
			if p.alt != "" {
				byAlt[p.alt] = i
			}
		}
		var out []sim.Violation
		add := func(clause, sig, detail string) { out = append(out, v(clause, sig, detail)) }
		n := 0
		for _, dr := range root.Find(inspect.NsW, "drawing") {
			blips := dr.Find(inspect.NsA, "blip")
			if len(blips) == 0 {
				continue
			}
			n++
			w.Stats.Probe("pictures_checked")
			id := blips[0].Attr(inspect.NsR, "embed")
			var rel *inspect.Rel
			for i := range byID[id] {
				if byID[id][i].Type == inspect.RelImg {
					rel = &byID[id][i]
				}
			}
			if rel == nil || len(byID[id]) != 1 {
				add("picture-unresolved", "embed", fmt.Sprintf("a:blip r:embed=%q does not resolve to exactly one image relationship", id))
				continue
			}
			data, ok := pkg.Parts[rel.Resolved]
			if !ok {
				add("picture-unresolved", "part-missing", fmt.Sprintf("picture -> %s -> %s: the part is not in the package", id, rel.Resolved))
				continue
			}
			alt := ""
			if dp := dr.Find(inspect.NsWP, "docPr"); len(dp) > 0 {
				alt = dp[0].Attr("", "descr")
			}
			idx, known := byAlt[alt]
			if !known || alt == "" {
				idx = -1
				h := sim.Digest(data)
				for i, p := range want {
					if !used[i] && p.alt == "" && p.hash == h {
						idx = i
						break
					}
				}
				if idx < 0 {
					add("wrong-bytes", "untagged-picture", fmt.Sprintf("a picture without alt text resolves to %s whose bytes (%s) belong to no untagged image given to this document", rel.Resolved, h))
					continue
				}
			}
			if used[idx] {
				add("picture-duplicated", "same-picture-twice", fmt.Sprintf("the picture tagged %q appears more than once", alt))
				continue
			}
			used[idx] = true
			p := want[idx]
			if h := sim.Digest(data); h != p.hash {
				whose := "unknown bytes"
				for _, q := range want {
					if q.hash == h {
						whose = fmt.Sprintf("the bytes of the picture tagged %q", q.alt)
					}
				}
				add("wrong-bytes", "picture-shows-other-image", fmt.Sprintf("the picture tagged %q resolves through %s to %s, which holds %s", alt, id, rel.Resolved, whose))
				continue
			}
			if p.extent {
				ew, eh := p.expectedExtent()
				ex := dr.Find(inspect.NsWP, "extent")
				ax := dr.Find(inspect.NsA, "ext")
				if len(ex) > 0 {
					cx, _ := strconv.ParseInt(ex[0].Attr("", "cx"), 10, 64)
					cy, _ := strconv.ParseInt(ex[0].Attr("", "cy"), 10, 64)
					if abs64(cx-ew) > 2 || abs64(cy-eh) > 2 {
						add("wrong-extent", fmt.Sprintf("size-mode-%d", p.mode), fmt.Sprintf("picture %q (%dx%d px, mode %d, %.0fx%.0f mm): wp:extent is %dx%d EMU, the sizing rule gives %dx%d", alt, p.pw, p.ph, p.mode, p.wmm, p.hmm, cx, cy, ew, eh))
						continue
					}
					for _, a := range ax {
						if a.Attr("", "cx") == "" {
							continue
						}
						ax1, _ := strconv.ParseInt(a.Attr("", "cx"), 10, 64)
						ay1, _ := strconv.ParseInt(a.Attr("", "cy"), 10, 64)
						if ax1 != cx || ay1 != cy {
							add("wrong-extent", "a:ext-differs-from-wp:extent", fmt.Sprintf("picture %q: wp:extent %dx%d but a:ext %dx%d", alt, cx, cy, ax1, ay1))
						}
					}
				}
			}
		}
		if loose, _ := w.Extra[fmt.Sprintf("c10loose%d", ds.Slot)].(bool); !loose && len(out) == 0 {
			must, shownOptional := 0, 0
			for i, p := range want {
				if !p.optional {
					must++
				} else if used[i] {
					shownOptional++
				}
			}
			if n-shownOptional != must {
				cls := "picture-lost"
				if n-shownOptional > must {
					cls = "picture-unexpected"
				}
				add(cls, "count", fmt.Sprintf("the saved main part shows %d pictures added through the API, %d were added to this document", n-shownOptional, must))
			}
		}
		if len(out) > 1 {
			out = out[:1]
		}
		return out
	}
	_, viol := runHistory(c, env, "c10", obs, nil)
	if len(viol) == 0 && renderFailed != "" {
		viol = append(viol, sim.Violation{Clause: "render-failed", Sig: "valid-template-and-picture", Detail: renderFailed})
	}
	if len(viol) > 1 {
		viol = viol[:1]
	}
	return viol
}

func abs64(x int64) int64 {
	if x < 0 {
		return -x
	}
	return x
}

func (c10) Witnesses() []*sim.Case { return nil }

var _ = strings.Contains
