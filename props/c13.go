package props

import (
	"fmt"
	"sort"

	"github.com/zerx-lab/wordZero/pkg/document"

	"verif/foreign"
	"verif/inspect"
	"verif/sim"
	"verif/world"
)

// C13 — everything a document refers to by id is defined in the same package.
type c13 struct{}

func init() { Register(c13{}) }

func (c13) ID() string     { return "C13" }
func (c13) Flavor() string { return "instr" }
func (c13) Runs(tier string) int {
	if tier == "thorough" {
		return 150000
	}
	return 6000
}

func (c13) Describe() Description {
	return Description{
		Rule: "one case = a seeded history mixing custom style creation (both style APIs), styled content (headings 1-9, SetStyle with built-in and custom ids, " +
			"table style templates, TOC), list items of all types and levels, foot/endnotes, with INTERMEDIATE save events, document restarts and process restarts " +
			"(registries emptied while documents keep ids pointing into them), optionally with an interfering second document defining other lists/notes, optionally " +
			"starting from a foreign-producer package that carries its own styles/numbering. Id-closure invariant at every save event over main part, headers, footers " +
			"and notes parts; plus: every style added through the API and not removed is present in the next save. Non-trivial = >= 1 id-producing op and >= 2 save " +
			"events; distinct = distinct event-log fingerprints.",
		Assumptions: []string{"numId 0 means 'no numbering' and needs no definition"},
		RealVsStub:  map[string]string{"real": "whole library, process-wide registries (reset only through the verif hook at simulated process restarts)", "stub": "map iteration order; foreign producer"},
	}
}

func (c13) Nontrivial(c *sim.Case, st *sim.Stats) bool {
	n := st.Ops["heading"] + st.Ops["li"] + st.Ops["fn"] + st.Ops["en"] + st.Ops["style.add"] + st.Ops["style.quick"] + st.Ops["p.style"] + st.Ops["t.style"] + st.Ops["toc.gen"] + st.Ops["toc.auto"]
	return n > 0 && st.Probes["save_events"] >= 2
}

func (c13) Gen(r *sim.Rand, c *sim.Case, tier string) {
	g := world.NewGen(r)
	g.Extra = true
	g.Alpha = []int{0, 4}
	g.Fam = world.FBody | world.FStyle | world.FList | world.FNote | world.FTable | world.FTableFmt
	if r.Bool() {
		g.Fam |= world.FTOC
	}
	if r.Bool() {
		g.Fam |= world.FHF
	}
	g.HFOncePerKind, g.RectTablesOnly = true, true
	g.AllowStyleRemoval = true
	var pre []sim.Op
	fromForeign := r.Chance(0.25)
	n := r.Range(4, 30)
	restartP, procP := 0.35, 0.12
	if !Wild {
		// known findings (lane B): styles-frozen-after-first-save, numbering-overwritten-on-opened-doc,
		// registries are process-wide (C07). Lane A keeps out of their preconditions:
		g.Fam &^= world.FTOC      // finding toc-style-ids-undefined
		g.NoTableTemplates = true // finding table-style-templates-undefined
		fromForeign = false       // an opened foreign package lacks the library's style ids and has its own numbering
		procP = 0                 // a process restart empties the registry that numIds point into
		c.Cfg["styles_before_first_save"] = 1
	}
	if fromForeign {
		pre = append(pre, sim.Op{K: "foreign", I: []int{int(r.Uint64() >> 40), int(r.Uint64()) & foreign.FAllBits, r.Intn(3)}})
	}
	ops := g.DocOps(0, n)
	if c.Cfg["styles_before_first_save"] == 1 {
		// style creation/removal only before anything was serialised: move those ops to the front
		sort.SliceStable(ops, func(i, j int) bool { return isStyleDef(ops[i]) && !isStyleDef(ops[j]) })
	}
	ops = sprinkleSaves(r, ops, 0, r.Range(2, 8), restartP, procP)
	if c.Cfg["styles_before_first_save"] == 1 {
		// no save may precede a style definition
		var defs, rest []sim.Op
		for _, op := range ops {
			if isStyleDef(op) {
				defs = append(defs, op)
			} else {
				rest = append(rest, op)
			}
		}
		ops = append(defs, rest...)
		if r.Chance(0.25) { // a rejected Save is not a serialisation: styles defined after it must still be written
			ops = append([]sim.Op{{K: "savefail", I: []int{r.Intn(2)}}}, ops...)
		}
	}
	if r.Chance(0.3) { // interfering document: the registries are shared (C07's finding), id closure must hold all the same
		g2 := world.NewGen(r.Fork())
		g2.Extra = true
		g2.Fam = world.FBody | world.FList | world.FNote
		other := sprinkleSaves(r, g2.DocOps(1, r.Range(2, 8)), 1, 5, 0.2, 0)
		if r.Bool() {
			// the other document drops a predefined style it does not use, before it has added any; this document uses that style
			x := sim.Str(r.Pick("Quote", "Subtitle", "Title", "CodeBlock", "ListParagraph"))
			other = append([]sim.Op{{K: "style.rm", D: 1, S: []sim.Str{x}}}, other...)
			ops = append([]sim.Op{{K: "para", S: []sim.Str{"uses a predefined style"}}, {K: "p.style", I: []int{0}, S: []sim.Str{x}}}, ops...)
		}
		ops = interleave(r, ops, other)
	}
	if !fromForeign && r.Chance(0.1) {
		// hand-over of list kinds between a reopened document and another one: this document has lists, is saved and reopened (its
		// numbering part now comes from the file), another document is the first to use a further kind, then this one uses that kind
		kinds := []string{"bullet", "number", "decimal", "lowerLetter", "upperLetter", "lowerRoman", "upperRoman"}
		p := r.Perm(len(kinds))
		li := func(d int, k string, lvl int) sim.Op {
			return sim.Op{K: "li", D: d, S: []sim.Str{sim.Str(fmt.Sprintf("item %s %d", k, d)), sim.Str(k), "•"}, I: []int{1, lvl, 0}}
		}
		ho := []sim.Op{li(0, kinds[p[0]], 0), {K: "restart", I: []int{r.Intn(2), r.Intn(3)}}, li(1, kinds[p[1]], 0), li(0, kinds[p[1]], 0)}
		if r.Bool() {
			ho = append(ho, li(1, kinds[p[2]], 1), sim.Op{K: "save", D: 1, I: []int{r.Intn(2)}}, li(0, kinds[p[2]], 1))
		}
		ho = append(ho, sim.Op{K: "save", I: []int{r.Intn(2)}}, sim.Op{K: "restart", I: []int{r.Intn(2), r.Intn(3)}}, li(0, kinds[p[0]], 0), li(0, kinds[p[1]], 0), sim.Op{K: "save", I: []int{r.Intn(2)}})
		ops = append(ops, ho...)
	}
	c.Tasks = [][]sim.Op{append(pre, ops...)}
	c.Order = orderPolicy(r)
	c.OrderSeed = r.Uint64()
}

func isStyleDef(op sim.Op) bool {
	return op.K == "style.add" || op.K == "style.quick" || op.K == "style.rm"
}

type c13model struct {
	added  map[int]map[string]string // slot -> style id -> "fresh" | "styles-part-present"
	serial map[int]bool              // slot was serialised or opened at least once
	exempt map[int]map[string]bool   // style ids the caller used although the registry did not have them
	origin map[int]string            // fresh | reopened | foreign | prestarted
}

func (c13) Exec(c *sim.Case, env *Env) []sim.Violation {
	m := &c13model{added: map[int]map[string]string{}, serial: map[int]bool{}, exempt: map[int]map[string]bool{}, origin: map[int]string{}}
	org := func(slot int) string {
		if o := m.origin[slot]; o != "" {
			return o
		}
		return "fresh"
	}
	builtin := map[string]bool{}
	for _, st := range document.New().GetStyleManager().GetAllStyles() {
		builtin[st.StyleID] = true
	}
	obs := &histObserver{}
	obs.after = func(w *world.World, op sim.Op, ds *world.Doc, o *world.Obs) {
		if m.added[ds.Slot] == nil {
			m.added[ds.Slot] = map[string]string{}
		}
		switch op.K {
		case "style.add", "style.quick":
			if o.Err == nil && o.Panic == "" {
				when := "fresh"
				if m.serial[ds.Slot] {
					when = "styles-part-present"
					w.Stats.Probe("style_added_after_serialisation")
				}
				if _, dup := m.added[ds.Slot][op.Str(0)]; !dup {
					m.added[ds.Slot][op.Str(0)] = when
				}
			}
		case "style.rm":
			delete(m.added[ds.Slot], op.Str(0))
		case "foreign":
			m.serial[ds.Slot] = true
			m.origin[ds.Slot] = "foreign"
		case "restart":
			if org(ds.Slot) == "fresh" {
				m.origin[ds.Slot] = "reopened"
			}
		case "prestart":
			for _, x := range w.Docs {
				if org(x.Slot) != "foreign" {
					m.origin[x.Slot] = "prestarted"
				}
			}
		case "p.style", "p.format", "t.style":
			// a style id the registry does not know at the time of the call is the caller's mistake
			id := op.Str(0)
			if op.K == "p.format" || (op.K == "t.style" && id == "") {
				id = op.Str(1)
			}
			// judged by the model, not by asking the library: an id is the caller's to use if it is
			// one of the library's own styles or was created (and not removed) through the style API
			_, created := m.added[ds.Slot][id]
			if id != "" && !tableTemplate.MatchString(id) && !builtin[id] && !created {
				if m.exempt[ds.Slot] == nil {
					m.exempt[ds.Slot] = map[string]bool{}
				}
				m.exempt[ds.Slot][id] = true
			}
		}
	}
	obs.onSave = func(w *world.World, ds *world.Doc, b []byte) []sim.Violation {
		m.serial[ds.Slot] = true
		pkg, wf := CheckWellFormed(b)
		if pkg == nil {
			return wf[:1]
		}
		// API-added styles present
		defined := map[string]bool{}
		if sb, ok := pkg.Parts["word/styles.xml"]; ok {
			if root, err := inspect.ParseXML(sb); err == nil {
				for _, s := range root.Find(inspect.NsW, "style") {
					defined[s.Attr(inspect.NsW, "styleId")] = true
				}
			}
		}
		for _, id := range sim.SortedKeys(m.added[ds.Slot]) {
			if !defined[id] {
				return []sim.Violation{v("added-style-missing", m.added[ds.Slot][id], "style "+id+" was added through the style API but is not in word/styles.xml of this save")}
			}
		}
		if vs := CheckIDClosure(pkg, m.exempt[ds.Slot]); len(vs) > 0 {
			x := vs[0]
			if x.Sig != "tblStyle:table-style-template" && x.Sig != "pStyle:numeric-toc-style" {
				x.Sig += "@" + org(ds.Slot) // the precondition of the known findings is part of the identity
			}
			return []sim.Violation{x}
		}
		return nil
	}
	_, viol := runHistory(c, env, "c13", obs, nil)
	if len(viol) > 1 {
		viol = viol[:1]
	}
	return viol
}

func (c13) Witnesses() []*sim.Case {
	mk := func(note string, ops ...sim.Op) *sim.Case {
		return &sim.Case{Prop: "C13", Lane: "B", Note: note, Order: "sorted", Cfg: map[string]int{}, Tasks: [][]sim.Op{ops}}
	}
	save := sim.Op{K: "save"}
	para := sim.Op{K: "para", S: []sim.Str{"x"}}
	li := sim.Op{K: "li", S: []sim.Str{"item", "number", "•"}, I: []int{1, 0, 0}}
	return []*sim.Case{
		mk("table-style-templates-undefined", sim.Op{K: "t.new", I: []int{2, 2, 5000, 0, 0}}, sim.Op{K: "t.style", I: []int{0, 1}, S: []sim.Str{"TableGrid", ""}}, save),
		mk("toc-style-ids-undefined", sim.Op{K: "heading", S: []sim.Str{"h"}, I: []int{1}}, sim.Op{K: "toc.auto", S: []sim.Str{"Contents"}, I: []int{3, 15}}, save),
		mk("styles-frozen-after-serialisation: added after first save", para, save, sim.Op{K: "style.add", S: []sim.Str{"Late", "late", "paragraph", "Normal"}}, save),
		mk("styles-frozen-after-serialisation: opened foreign package lacks the library's heading styles", sim.Op{K: "foreign", I: []int{3, 0, 0}}, sim.Op{K: "heading", S: []sim.Str{"h"}, I: []int{2}}, save),
		mk("numbering-overwritten: list item added to an opened package that has its own numbering", sim.Op{K: "foreign", I: []int{4, foreign.FNumbering, 0}}, li, save),
		mk("numbering-overwritten: list item after a process restart", li, sim.Op{K: "li", S: []sim.Str{"item", "bullet", "■"}, I: []int{1, 0, 0}},
			sim.Op{K: "prestart", I: []int{0, 0}}, li, save),
	}
}
