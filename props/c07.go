package props

import (
	"fmt"
	"io"
	"os"
	"strings"

	"github.com/zerx-lab/wordZero/pkg/document"

	"verif/foreign"
	"verif/sim"
	"verif/sim/sched"
	"verif/simrt"
	"verif/world"
)

// C07 — documents are independent of each other, sequentially and concurrently.
//
// The multi-client simulation: K tasks, each owning 1-2 documents. The same
// operation lists are executed three times: (S) every document alone from a
// fresh process state, (I) interleaved at operation granularity on one
// goroutine, (C) as goroutines under the deterministic scheduler in the -race
// build. Every observation on a document in (I) and (C) must equal its solo
// observation; the race log must stay empty.
type c07 struct{}

func init() { Register(c07{}) }

func (c07) ID() string     { return "C07" }
func (c07) Flavor() string { return "race" }
func (c07) Runs(tier string) int {
	if tier == "thorough" {
		return 40000
	}
	return 1600
}

func (c07) Describe() Description {
	return Description{
		Rule: "one case = K in 2..3 tasks, each owning 1-2 documents with a seeded operation list over the document API (body, formatting, tables, images, headers/footers, " +
			"page settings, styles, properties, TOC, math; notes on at most one document and lists on at most one document per case in the search lane, because the " +
			"process-wide registries are a listed finding), with accessor sweeps, save events through both entry points and document restarts. The lists are executed " +
			"three times: (S) each document alone after a process-state reset, (I) interleaved at operation granularity on one goroutine in a PRNG-chosen order incl. " +
			"the degenerate orders all-of-A-then-B and B-then-A, (C) as real goroutines that hold a futex baton handed out by the seeded scheduler at every operation " +
			"boundary, in the -race build (the hand-off is invisible to the race detector, so unsynchronised sharing between tasks is reported although execution is " +
			"serialised and replayable). Oracle: per document, every operation result, accessor result and canonical package of every save in (I) and (C) equals (S); " +
			"race log empty; no deadlock. Non-trivial = >= 2 documents with >= 2 operations each and >= 1 save event and >= 1 context switch in (C); distinct = " +
			"distinct event-log fingerprints (ops, results, package digests, schedule).",
		Assumptions: []string{"logger configuration calls are not document operations and are made before tasks start",
			"canonical package equality leaves free what the format leaves free: entry order, attribute order, prefixes, order inside map-filled registries; core-properties timestamps are masked"},
		RealVsStub: map[string]string{"real": "whole library, Go race detector, goroutines, kernel futex; file system for Save/Open",
			"stub": "goroutine scheduling (seeded baton scheduler), map iteration order (verifrt.Keys)"},
	}
}

func (c07) Nontrivial(c *sim.Case, st *sim.Stats) bool {
	return st.Probes["docs_with_2_ops"] >= 2 && st.Probes["save_events"] > 0 && st.Probes["context_switches"] > 0
}

const c07DocsPerTask = 2

func (c07) Gen(r *sim.Rand, c *sim.Case, tier string) {
	k := r.Range(2, 3)
	type slotInfo struct{ task, slot int }
	var slots []slotInfo
	for t := 0; t < k; t++ {
		nd := 1
		if r.Chance(0.3) {
			nd = 2
		}
		for j := 0; j < nd; j++ {
			slots = append(slots, slotInfo{t, t*c07DocsPerTask + j})
		}
	}
	noteDoc, listDoc := r.Intn(len(slots)), r.Intn(len(slots))
	fam := 0
	for f := 1; f < world.FAll; f <<= 1 {
		if r.Chance(0.6) {
			fam |= f
		}
	}
	fam |= world.FBody
	alpha := []int{0}
	for cls := 1; cls < 6; cls++ {
		if r.Chance(0.3) {
			alpha = append(alpha, cls)
		}
	}
	c.Tasks = make([][]sim.Op, k)
	commonFile, commonSeed, commonFlags, lastCommonTask, ncommon := !Wild && r.Chance(0.15), int(r.Uint64()>>44), int(r.Uint64())&foreign.FAllBits&^(foreign.FNumbering|foreign.FNoStyles), -1, 0
	sharedStyle, sharedBase := !Wild && r.Chance(0.15), r.Intn(4)
	for i, s := range slots {
		g := world.NewGen(r.Fork())
		g.Extra = true
		g.Alpha = alpha
		g.Fam = fam
		g.HFOncePerKind, g.RectTablesOnly, g.WellFormedMath = true, true, true
		g.ObsEvery = 4
		g.StyleEdits = true
		g.ObsExport = true
		g.BigImages = r.Chance(0.2)
		if !Wild {
			if i != noteDoc {
				g.Fam &^= world.FNote
			}
			g.SharedStyleIDs = true
			g.ObsCounts = i == noteDoc // Get*noteCount reads the process-wide registry: only its one user may look
			if i != listDoc {
				g.Fam &^= world.FList
				g.NoCellList = true
			}
		}
		var ops []sim.Op
		if commonFile && s.task != lastCommonTask && ncommon < 3 {
			// documents of different tasks start from ONE file of another producer, opened by each task for itself at its very start
			// (the Opens overlap in the concurrent phase)
			ops = append(ops, sim.Op{K: "foreign", D: s.slot, I: []int{commonSeed, commonFlags, 2, 1}}, sim.Op{K: "obs", D: s.slot, I: []int{0}})
			lastCommonTask = s.task
			ncommon++
		} else if r.Chance(0.2) { // the document starts as the result of a Markdown conversion
			if r.Bool() {
				ops = append(ops, sim.Op{K: "md", D: s.slot, I: []int{r.Intn(32)}, S: []sim.Str{sim.Str(g.Markdown(Wild || i == listDoc))}})
			} else { // from a file, through ConvertFile, with the caller's options or with none
				ops = append(ops, sim.Op{K: "mdfile", D: s.slot, I: []int{r.Range(-1, 15)}, S: []sim.Str{sim.Str(g.Markdown(Wild || i == listDoc))}})
			}
		}
		if sharedStyle {
			// every document of this run defines the custom style "Section" - each on another base - and uses it for a paragraph
			// (what one document's style id means must not depend on what the same id means in another document)
			ops = append(ops, sim.Op{K: "style.add", D: s.slot, S: []sim.Str{"Section", "custom Section", "paragraph", sim.Str([]string{"Heading1", "Heading2", "Heading3", "Normal"}[(i+sharedBase)%4])}},
				sim.Op{K: "para", D: s.slot, S: []sim.Str{sim.Str(g.PlainText())}}, sim.Op{K: "p.style", D: s.slot, I: []int{-1}, S: []sim.Str{"Section"}},
				sim.Op{K: "obs", D: s.slot, I: []int{0}})
		}
		ops = append(ops, g.DocOps(s.slot, r.Range(2, 18))...)
		ops = sprinkleSavesOpt(r, ops, s.slot, r.Range(2, 8), 0.25, 0, false)
		ops = append(ops, sim.Op{K: "obs", D: s.slot, I: []int{btoiP(g.ObsCounts)}})
		// a task that owns two documents interleaves them itself
		c.Tasks[s.task] = interleave(r, c.Tasks[s.task], ops)
	}
	if len(slots) >= 2 && r.Chance(0.12) {
		// a conversion from a file whose output cannot be written (the target is a directory: a real, deterministic failure, no hook),
		// and a document of another task converted from a string by the same Converter, with a relative picture
		a, b := slots[0], slots[len(slots)-1]
		failing := sim.Op{K: "mdfile", D: a.slot, I: []int{r.Range(-1, 15), 1}, S: []sim.Str{"report ![](figures/plot.png)\n\ntext\n"}}
		later := []sim.Op{{K: "md", D: b.slot, I: []int{r.Intn(32)}, S: []sim.Str{"letter ![](pic.png) and ![](img/a.png)\n\nmore text\n"}}, {K: "save", D: b.slot, I: []int{r.Intn(2)}}, {K: "obs", D: b.slot, I: []int{0}}}
		c.Tasks[a.task] = append([]sim.Op{failing}, c.Tasks[a.task]...)
		c.Tasks[b.task] = append(later, c.Tasks[b.task]...)
	}
	c.SchedSeed = r.Uint64()
	c.Order = orderPolicy(r)
	c.OrderSeed = r.Uint64()
	c.Cfg["imode"] = r.Intn(4) // 0,1 random interleaving; 2 tasks in order; 3 tasks in reverse order
	c.Cfg["log"] = r.Intn(2)
	c.Cfg["preempt"] = preemptMean(r)
	c.Cfg["isolated"] = btoiP(r.Chance(0.08)) // the documents are also executed alone in fresh processes
}

// ---- observations ----------------------------------------------------------------

type c07entry struct {
	kind  string
	res   string
	canon *CanonPkg
}

type c07obs struct {
	bySlot map[int][]c07entry
	kept   []keptBytes // every byte slice a save returned, with its digest at that moment
}

type keptBytes struct {
	slot, step int
	b          []byte
	digest     string
}

// checkKept verifies that bytes handed out by earlier saves were not changed
// by anything that happened afterwards (on this or any other document).
func (o *c07obs) checkKept(phase string) *sim.Violation {
	for _, k := range o.kept {
		if sim.Digest(k.b) != k.digest {
			return &sim.Violation{Clause: "returned-bytes-changed", Sig: phase, Detail: fmt.Sprintf("the bytes returned by save step %d of document %d were modified after they had been returned", k.step, k.slot)}
		}
	}
	return nil
}

func newC07obs() *c07obs { return &c07obs{bySlot: map[int][]c07entry{}} }

func (o *c07obs) After(w *world.World, op sim.Op, ds *world.Doc, ob *world.Obs) {
	if ob.Panic != "" {
		ds.Dead = true
	}
	res := ob.Res
	if ob.Panic != "" {
		res = "panic:" + ob.Panic
	}
	o.bySlot[ds.Slot] = append(o.bySlot[ds.Slot], c07entry{kind: op.K, res: res})
}

func (o *c07obs) OnSave(w *world.World, ds *world.Doc, b []byte) {
	o.kept = append(o.kept, keptBytes{ds.Slot, len(o.bySlot[ds.Slot]), b, sim.Digest(b)})
	cp, err := CanonPackage(b)
	e := c07entry{kind: "save"}
	if err != nil {
		e.res = "unreadable"
	} else {
		e.canon = cp
		e.res = inspectHashLines(cp.Summary())
		w.Log.Event("save d=%d %s", ds.Slot, e.res)
	}
	o.bySlot[ds.Slot] = append(o.bySlot[ds.Slot], e)
}

func (o *c07obs) OnRestart(w *world.World, ds *world.Doc) {}

func inspectHashLines(ls []string) string { return sim.Digest([]byte(strings.Join(ls, "\n"))) }

// firstFieldDiff names the first "key=value;" field in which two accessor results differ.
func firstFieldDiff(a, b string) string {
	fa, fb := strings.Split(a, ";"), strings.Split(b, ";")
	for i := 0; i < len(fa) && i < len(fb); i++ {
		if fa[i] != fb[i] {
			k, _, _ := strings.Cut(fa[i], "=")
			return k
		}
	}
	return "fields"
}

// compareObs compares one document's observations in a phase with its solo run.
func compareObs(phase string, slot int, solo, got []c07entry) *sim.Violation {
	n := len(solo)
	if len(got) < n {
		n = len(got)
	}
	for i := 0; i < n; i++ {
		s, g := solo[i], got[i]
		if s.kind != g.kind {
			return &sim.Violation{Clause: "differs-from-solo", Sig: phase + ":sequence", Detail: fmt.Sprintf("document %d, step %d: %s alone vs %s", slot, i, s.kind, g.kind)}
		}
		if s.res == g.res {
			continue
		}
		switch {
		case s.kind == "save" && s.canon != nil && g.canon != nil:
			sig, det := PkgDiff(s.canon, g.canon)
			return &sim.Violation{Clause: "differs-from-solo", Sig: phase + ":" + sig, Detail: fmt.Sprintf("document %d, step %d (save): alone vs %s: %s", slot, i, phase, det)}
		case s.kind == "obs":
			f := firstFieldDiff(s.res, g.res)
			return &sim.Violation{Clause: "differs-from-solo", Sig: phase + ":obs." + f, Detail: fmt.Sprintf("document %d, step %d: accessor results alone %q vs %s %q", slot, i, s.res, phase, g.res)}
		default:
			return &sim.Violation{Clause: "differs-from-solo", Sig: phase + ":op." + s.kind, Detail: fmt.Sprintf("document %d, step %d: %s returned %q alone vs %q %s", slot, i, s.kind, clip(s.res), clip(g.res), phase)}
		}
	}
	if len(solo) != len(got) {
		return &sim.Violation{Clause: "differs-from-solo", Sig: phase + ":length", Detail: fmt.Sprintf("document %d: %d observations alone vs %d", slot, len(solo), len(got))}
	}
	return nil
}

func slotsOf(tasks [][]sim.Op) []int {
	seen := map[int]bool{}
	var out []int
	for _, t := range tasks {
		for _, op := range t {
			if !seen[op.D] {
				seen[op.D] = true
				out = append(out, op.D)
			}
		}
	}
	// ascending
	for i := 1; i < len(out); i++ {
		for j := i; j > 0 && out[j] < out[j-1]; j-- {
			out[j], out[j-1] = out[j-1], out[j]
		}
	}
	return out
}

func setLogging(on bool) {
	if on {
		document.SetGlobalLevel(document.LogLevelDebug)
	} else {
		document.SetGlobalLevel(document.LogLevelSilent)
	}
	document.SetGlobalOutput(io.Discard)
}

func (c07) Exec(c *sim.Case, env *Env) []sim.Violation {
	setLogging(c.C("log") == 1)
	defer setLogging(false)
	root := env.MkTmp("c07")
	defer os.RemoveAll(root)
	slots := slotsOf(c.Tasks)
	// preconditions of the listed finding "process-wide registries": two or more
	// documents of the process use notes / lists. Only then are differences
	// confined to that finding's footprint folded into its signature.
	foldNotes, foldNums := usersOf(c.Tasks, noteOps) >= 2, usersOf(c.Tasks, listOps) >= 2
	var viol []sim.Violation
	add := func(x *sim.Violation) {
		if x == nil {
			return
		}
		x.Sig = foldRegistrySig(x.Sig, foldNotes, foldNums)
		for _, y := range viol {
			if y.Clause == x.Clause && y.Sig == x.Sig {
				return
			}
		}
		viol = append(viol, *x)
	}
	mkWorld := func(name string, st *sim.Stats, lg *sim.Log, o *c07obs) *world.World {
		dir := root + "/" + name
		_ = os.MkdirAll(dir, 0o755)
		w := world.New(st, lg, dir)
		w.ShortReadRng = sim.NewRand(c.OrderSeed ^ 0x5151)
		w.Obsv = append(w.Obsv, o)
		return w
	}

	// ---- (S) every document alone
	solo := newC07obs()
	soloSlot := func(s int, into *c07obs) int {
		document.VerifResetProcessState()
		simrt.InstallOrder(c.Order, c.OrderSeed, 0, nil)
		w := mkWorld(fmt.Sprintf("s%d", s), sim.NewStats(), &sim.Log{}, into)
		n := 0
		for _, t := range c.Tasks {
			for _, op := range t {
				if op.D == s {
					w.Apply(op)
					n++
				}
			}
		}
		simrt.Uninstall()
		return n
	}
	if env.SoloSlot >= 0 {
		// this process is the fresh process of an isolated baseline: execute that one document alone and hand the observations back
		o := newC07obs()
		soloSlot(env.SoloSlot, o)
		for i, e := range o.bySlot[env.SoloSlot] {
			it := SoloObs{Kind: e.kind, Res: e.res}
			if e.kind == "save" {
				for _, k := range o.kept {
					if k.slot == env.SoloSlot && k.step == i {
						it.Bytes = k.b
					}
				}
			}
			if env.SoloOut != nil {
				*env.SoloOut = append(*env.SoloOut, it)
			}
		}
		return nil
	}
	runSolo := func() {
		for _, s := range slots {
			if soloSlot(s, solo) >= 2 {
				env.Stats.Probe("docs_with_2_ops")
			}
		}
	}

	// ---- (C) concurrent under the scheduler: executed by runConc, judged by judgeConc. In a COLD case (the very first
	// library calls of a fresh process are the concurrent ones: lazily initialised package-level state is still
	// untouched) it is executed before the other phases and judged after them.
	var (
		cs      *sched.Sched
		conc    []*c07obs
		cstats  []*sim.Stats
		clogs   []*sim.Log
		raceLog string
		ioStats *simrt.IOStats
	)
	runConc := func() {
		document.VerifResetProcessState()
		cs = sched.New(sim.NewRand(c.SchedSeed ^ 0xC0))
		simrt.InstallOrder(c.Order, c.OrderSeed^2, len(c.Tasks), cs)
		ioStats = simrt.InstallIO(cs, nil)      // every file-system call of the library is a yield point: tasks interleave inside Save and Open
		simrt.InstallPoints(cs, c.C("preempt")) // and, in some runs, function and loop entries of the library (drawn gaps)
		// any mutex of the library goes through the scheduler: a task that is preempted inside a critical section must not
		// make the next task block for real (the baton would never come back); a genuine deadlock is the scheduler's to report
		simrt.InstallLocks(cs)
		conc = make([]*c07obs, len(c.Tasks))
		cstats = make([]*sim.Stats, len(c.Tasks))
		clogs = make([]*sim.Log, len(c.Tasks))
		fns := make([]func(), len(c.Tasks))
		for t := range c.Tasks {
			t := t
			conc[t] = newC07obs()
			cstats[t] = sim.NewStats()
			clogs[t] = &sim.Log{}
			// all tasks save into ONE directory (under file names of their own), as programs do
			w := mkWorld("c", cstats[t], clogs[t], conc[t])
			w.FilePrefix = fmt.Sprintf("t%d-", t)
			ops := c.Tasks[t]
			fns[t] = func() {
				for _, op := range ops {
					w.Apply(op)
					cs.Yield()
				}
			}
		}
		if env.RaceNew != nil {
			env.RaceNew() // drain
		}
		cs.Run(fns)
		simrt.Uninstall()
		if env.RaceNew != nil {
			raceLog = env.RaceNew()
		}
	}
	cold := c.C("cold") != 0
	if cold {
		runConc()
		env.Stats.Probe("cold_concurrent_first")
	}
	runSolo()

	// ---- (S') the same documents alone, each in a FRESH PROCESS: the in-process baseline above runs after whatever earlier
	// runs of this worker process (and, in a cold case, the concurrent phase) left in package-level state that no reset
	// hook knows about - a cache keyed by something two documents share, say. Alone in this process must equal alone in a
	// fresh process.
	if c.C("isolated") != 0 && env.SoloFresh != nil {
		for _, s := range slots {
			fresh, err := env.SoloFresh(c, s)
			if err != nil {
				panic("isolated baseline: " + err.Error())
			}
			var fe []c07entry
			for _, it := range fresh {
				e := c07entry{kind: it.Kind, res: it.Res}
				if it.Kind == "save" && it.Bytes != nil {
					if cp, err := CanonPackage(it.Bytes); err == nil {
						e.canon = cp
					}
				}
				fe = append(fe, e)
			}
			env.Stats.Probe("documents_compared_with_a_fresh_process")
			if v := compareObs("this-process-vs-fresh-process", s, fe, solo.bySlot[s]); v != nil {
				add(v)
			}
		}
		if len(viol) > 0 && c.Lane != "B" {
			return viol[:1]
		}
	}

	// ---- (I) interleaved on one goroutine
	{
		document.VerifResetProcessState()
		simrt.InstallOrder(c.Order, c.OrderSeed^1, 0, nil)
		inter := newC07obs()
		w := mkWorld("i", env.Stats, env.Log, inter)
		r := sim.NewRand(c.SchedSeed)
		var order []sim.Op
		switch c.C("imode") {
		case 2:
			for _, t := range c.Tasks {
				order = append(order, t...)
			}
		case 3:
			for i := len(c.Tasks) - 1; i >= 0; i-- {
				order = append(order, c.Tasks[i]...)
			}
		default:
			order = interleave(r, c.Tasks...)
		}
		for _, op := range order {
			w.Apply(op)
		}
		simrt.Uninstall()
		for _, s := range slots {
			add(compareObs("interleaved", s, solo.bySlot[s], inter.bySlot[s]))
		}
		add(solo.checkKept("alone"))
		add(inter.checkKept("interleaved"))
		if len(viol) > 0 && c.Lane != "B" {
			return viol[:1]
		}
	}

	// ---- (C) judged
	{
		if !cold {
			runConc()
		}
		s := cs
		stats, logs := cstats, clogs
		env.Stats.ProbeN("context_switches", int64(s.Switches))
		env.Stats.ProbeN("preemptions_inside_library_calls", int64(s.Preemptions))
		env.Stats.ProbeN("preemption_points_passed", s.Points)
		env.Stats.ProbeN("io_yield_points", ioStats.Calls)
		env.Stats.ProbeN("schedule_picks", int64(len(s.Trace)))
		env.Log.Event("sched %v", s.Trace)
		if s.Deadlock || s.Overrun {
			add(&sim.Violation{Clause: "deadlock", Sig: "tasks-stuck", Detail: "no runnable task while some task is unfinished"})
			return viol
		}
		for t := range c.Tasks {
			env.Stats.Add(stats[t])
			env.Log.Event("task %d fp %s", t, logs[t].Fingerprint())
			for _, sl := range slotsOf([][]sim.Op{c.Tasks[t]}) {
				add(compareObs("concurrent", sl, solo.bySlot[sl], conc[t].bySlot[sl]))
			}
			add(conc[t].checkKept("concurrent"))
		}
		sigs, texts, harness := RaceSigs(raceLog, foldNotes, foldNums)
		if harness != "" {
			panic("the harness itself raced:\n" + harness)
		}
		for _, sg := range sigs {
			env.Stats.Probe("race_reports")
			add(&sim.Violation{Clause: "race", Sig: sg, Detail: firstLinesOf(texts[sg], 14)})
		}
	}
	if len(viol) > 1 && c.Lane != "B" {
		viol = viol[:1]
	}
	return viol
}

var noteOps = map[string]bool{"fn": true, "en": true, "rmfn": true, "rmen": true, "fnrun": true}
var listOps = map[string]bool{"li": true, "bullet": true, "numbered": true, "t.celllist": true, "restartnum": true, "mllist": true}

func btoiP(b bool) int {
	if b {
		return 1
	}
	return 0
}

func usersOf(tasks [][]sim.Op, kinds map[string]bool) int {
	seen := map[int]bool{}
	for _, t := range tasks {
		for _, op := range t {
			if kinds[op.K] || (kinds["fn"] && op.K == "obs" && op.Int(0) != 0) {
				seen[op.D] = true
			}
		}
	}
	return len(seen)
}

// foldRegistrySig maps a difference that lies inside the footprint of the
// process-wide note / numbering registries to the signature of that finding.
func foldRegistrySig(sig string, notes, nums bool) string {
	phase, rest, ok := strings.Cut(sig, ":")
	if !ok || (phase != "interleaved" && phase != "concurrent") {
		return sig
	}
	if notes && (strings.HasPrefix(rest, "word/footnotes.xml:") || strings.HasPrefix(rest, "word/endnotes.xml:") ||
		rest == "obs.markers" || rest == "obs.fncount" || rest == "obs.encount" || rest == "op.rmfn" || rest == "op.rmen" ||
		rest == "word/document.xml:/w:document/w:body/w:p/w:r/w:t:text@note-marker") {
		return "registry:notes"
	}
	if nums && (strings.HasPrefix(rest, "word/numbering.xml:") || strings.HasSuffix(rest, "/w:numPr/w:numId@w:val:changed")) {
		return "registry:numbering"
	}
	return sig
}

func firstLinesOf(s string, n int) string {
	ls := strings.Split(s, "\n")
	if len(ls) > n {
		ls = ls[:n]
	}
	return strings.Join(ls, " | ")
}

func (c07) Witnesses() []*sim.Case {
	mk := func(note string, tasks ...[]sim.Op) *sim.Case {
		return &sim.Case{Prop: "C07", Lane: "B", Note: note, Order: "sorted", SchedSeed: 3, Cfg: map[string]int{"imode": 2}, Tasks: tasks}
	}
	doc := func(slot int, ops ...sim.Op) []sim.Op {
		for i := range ops {
			ops[i].D = slot
		}
		return append(ops, sim.Op{K: "obs", D: slot, I: []int{1}}, sim.Op{K: "save", D: slot})
	}
	fn := func(t string) sim.Op {
		return sim.Op{K: "fn", S: []sim.Str{sim.Str("text " + t), sim.Str("note " + t)}}
	}
	en := func(t string) sim.Op {
		return sim.Op{K: "en", S: []sim.Str{sim.Str("text " + t), sim.Str("note " + t)}}
	}
	li := func(t string, typ string, start int) sim.Op {
		return sim.Op{K: "li", S: []sim.Str{sim.Str(t), sim.Str(typ), "•"}, I: []int{start, 0, 0}}
	}
	return []*sim.Case{
		mk("process-wide registries: footnotes of two documents", doc(0, fn("a"), fn("b")), doc(2, fn("c"))),
		mk("process-wide registries: endnotes of two documents", doc(0, en("a")), doc(2, en("c"), en("d"))),
		mk("converter-options-remember-first-directory (fixed): two Markdown files converted by one Converter without options",
			doc(0, sim.Op{K: "mdfile", I: []int{-1}, S: []sim.Str{"first ![](pic.png)\n"}}), doc(2, sim.Op{K: "mdfile", I: []int{-1}, S: []sim.Str{"second ![](pic.png)\n"}})),
		mk("exporter-options-leak (fixed): two documents exported by one Exporter, the first with options, the second without",
			[]sim.Op{{K: "para", D: 0, S: []sim.Str{"alpha"}}, {K: "t.new", D: 0, I: []int{2, 2, 5000, 0, 1}, S: []sim.Str{"a", "b", "c", "d"}}, {K: "obs", D: 0, I: []int{0, 2}}},
			[]sim.Op{{K: "para", D: 2, S: []sim.Str{"beta"}}, {K: "t.new", D: 2, I: []int{2, 2, 5000, 0, 1}, S: []sim.Str{"e", "f", "g", "h"}}, {K: "obs", D: 2, I: []int{0, 1}}}),
		mk("process-wide registries: list definitions of two documents", doc(0, li("x", "number", 1), li("y", "bullet", 1)), doc(2, li("z", "lowerRoman", 1))),
	}
}
