package props

import (
	"bytes"

	"verif/foreign"
	"verif/inspect"
	"verif/sim"
	"verif/world"
)

// C01 — every saved document is a well-formed OOXML package.
type c01 struct{}

func init() { Register(c01{}) }

func (c01) ID() string     { return "C01" }
func (c01) Flavor() string { return "instr" }
func (c01) Runs(tier string) int {
	if tier == "thorough" {
		return 120000
	}
	return 3000
}

func (c01) Describe() Description {
	return Description{
		Rule: "one case = a seeded history over the public API (swarm-selected op families, hostile string alphabet per run: XML metacharacters, control " +
			"characters, invalid UTF-8, whitespace, CJK/astral, template look-alikes; all three image formats with arbitrary original file names) on 1-2 documents " +
			"interleaved at operation granularity, with save events through both entry points, document restarts (save/drop/open through three open paths incl. " +
			"short reads) and process restarts (registries emptied) sprinkled in, under a simulator-chosen map-iteration policy (sorted/reverse/rotate/shuffle/mixed). " +
			"The package invariant is evaluated at EVERY save event. Non-trivial = >= 3 operations and >= 1 save event; distinct = distinct event-log fingerprints.",
		Assumptions: []string{"schema validity beyond well-formedness is not part of the property", "XML well-formedness is judged by encoding/xml in strict mode plus an explicit XML 1.0 Char check"},
		RealVsStub:  map[string]string{"real": "whole library, archive/zip, encoding/xml, file system for Save/Open", "stub": "map iteration order (verifrt.Keys); the reader used by the oracle is the harness's own"},
	}
}

func (c01) Nontrivial(c *sim.Case, st *sim.Stats) bool {
	return c.NOps() >= 3 && st.Probes["save_events"] > 0
}

func (c01) Gen(r *sim.Rand, c *sim.Case, tier string) {
	g := world.NewGen(r)
	g.Extra = true
	// swarm: alphabet classes and families for this run
	g.Alpha = nil
	for cls := 0; cls < 6; cls++ {
		if r.Chance(0.5) {
			g.Alpha = append(g.Alpha, cls)
		}
	}
	if len(g.Alpha) == 0 {
		g.Alpha = []int{r.Intn(6)}
	}
	g.Fam = 0
	for f := 1; f < world.FAll; f <<= 1 {
		if r.Chance(0.55) {
			g.Fam |= f
		}
	}
	g.Fam |= world.FBody
	if !Wild {
		g.HFOncePerKind = true   // C11 finding hf-duplicate-reference
		g.RectTablesOnly = true  // C09 findings: structural edits on ragged tables panic
		g.WellFormedMath = false // the finding math-raw-innerxml is fixed: arbitrary formula text is part of the search
	}
	n := r.Range(3, 40)
	var ops []sim.Op
	switch x := r.Intn(10); {
	case x < 2: // rendered documents of one cached template, extended independently
		g.HFOncePerKind = false
		c.Cfg["template"] = 1
		c.Tasks = [][]sim.Op{templateScenario(r, g)}
		c.Order = orderPolicy(r)
		c.OrderSeed = r.Uint64()
		return
	case x < 4: // a package from another producer (own content-type conventions), then extended
		ops = append(ops, sim.Op{K: "foreign", I: []int{int(r.Uint64() >> 40), int(r.Uint64()) & foreign.FAllBits, r.Intn(3)}})
		c.Cfg["foreign"] = 1
		g.Fam |= world.FImage
		n = r.Range(2, 15)
	}
	if c.Cfg["foreign"] == 0 && r.Chance(0.15) { // the document starts as the result of a Markdown conversion
		ops = append(ops, sim.Op{K: "md", I: []int{r.Intn(32)}, S: []sim.Str{sim.Str(g.Markdown(true))}})
	}
	ops = append(ops, g.DocOps(0, n)...)
	ops = sprinkleSaves(r, ops, 0, r.Range(3, 12), 0.35, 0.1)
	if r.Chance(0.3) { // interfering second document that uses lists
		g2 := world.NewGen(r.Fork())
		g2.Extra = true
		g2.Fam = world.FBody | world.FList
		g2.HFOncePerKind, g2.RectTablesOnly, g2.NoJPGName = true, true, true
		ops2 := sprinkleSaves(r, g2.DocOps(1, r.Range(2, 10)), 1, 6, 0.2, 0)
		ops = interleave(r, ops, ops2)
	}
	c.Tasks = [][]sim.Op{ops}
	c.Order = orderPolicy(r)
	c.OrderSeed = r.Uint64()
}

func (c01) Exec(c *sim.Case, env *Env) []sim.Violation {
	obs := &histObserver{}
	obs.onSave = func(w *world.World, ds *world.Doc, b []byte) []sim.Violation {
		_, vs := CheckWellFormed(b)
		if len(vs) > 0 {
			return vs[:1]
		}
		// (6) the other entry point, taken back to back, yields the same package
		if ds.Saves%3 == 0 {
			b2, err := w.Serialize(ds, 1-boolInt(ds.Saves%2 == 0))
			if err != nil {
				return []sim.Violation{v("entry-points-disagree", "other-entry-point-failed", err.Error())}
			}
			if ok, why := sameParts(b2, b); !ok {
				return []sim.Violation{v("entry-points-disagree", "content", why)}
			}
		}
		return nil
	}
	_, viol := runHistory(c, env, "c01", obs, nil)
	if len(viol) > 1 {
		viol = viol[:1]
	}
	return viol
}

func boolInt(b bool) int {
	if b {
		return 1
	}
	return 0
}

func (c01) Witnesses() []*sim.Case {
	// regression witnesses of fixed findings (must pass)
	mk := func(note string, ops ...sim.Op) *sim.Case {
		ops = append(ops, sim.Op{K: "save"}, sim.Op{K: "save", I: []int{1}})
		return &sim.Case{Prop: "C01", Lane: "B", Note: note, Order: "sorted", Cfg: map[string]int{}, Tasks: [][]sim.Op{ops}}
	}
	img := func(name string, f int) sim.Op {
		return sim.Op{K: "img", I: []int{f, 8, 8, 42, 0, 0, 0, 0}, S: []sim.Str{sim.Str(name), "alt", "title"}, F: []float64{0, 0, 0, 0}}
	}
	return []*sim.Case{
		mk("media-ext-no-content-type: .jpg name", img("photo.jpg", 1)),
		mk("media-ext-no-content-type: upper-case extension", img("PHOTO.PNG", 0)),
		mk("media-ext-no-content-type: misleading extension", img("wrong.gif", 0)),
		mk("media-ext-no-content-type: gif in a table cell", sim.Op{K: "t.new", I: []int{2, 2, 5000, 0, 0}},
			sim.Op{K: "cellimg", I: []int{2, 8, 8, 43, 0, 0, 0, 0, 0, 0, 0}, S: []sim.Str{"x", "a", "t"}, F: []float64{0, 0, 0, 0}}),
		mk("math-raw-innerxml: text with < and &", sim.Op{K: "math", S: []sim.Str{"a<b & c"}, I: []int{1}}),
		mk("math-raw-innerxml: control character", sim.Op{K: "math", S: []sim.Str{"x\x02y"}, I: []int{0}}),
		mk("math-raw-innerxml: unbalanced tag", sim.Op{K: "math", S: []sim.Str{"<m:r><m:t>x</m:t>"}, I: []int{1}}),
		mk("math-fragment-closes-wrapper: end tag first", sim.Op{K: "math", S: []sim.Str{"</x><x>"}, I: []int{0}}),
	}
}

var _ = bytes.Equal
var _ = inspect.NsW
