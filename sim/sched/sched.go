// Package sched is the cooperative task scheduler of the simulator.
//
// Tasks are real goroutines, but exactly one of them runs at any instant and
// the choice of which one is drawn from the run's PRNG. The baton is handed
// over with raw futex system calls on plain words inside //go:norace
// functions: the Go race detector does not see that hand-off, so it derives no
// happens-before edge from it, and two tasks that touch the same memory
// without synchronisation of their own are still reported as racing although
// their execution was serialised (and serialised identically on every replay).
package sched

import (
	"sync"
	"syscall"
	"unsafe"

	"verif/sim"
)

const (
	stRunnable = iota
	stBlocked
	stDone
)

type task struct {
	word    uint32 // baton: 1 = may run
	state   int
	blocked unsafe.Pointer // lock the task waits for
	steps   int
}

// Sched schedules a fixed set of tasks.
type Sched struct {
	rng      *sim.Rand
	tasks    []*task
	cur      int
	mainWord uint32
	Trace    []int // picks, in order
	Switches int   // picks that changed the running task
	Deadlock bool
	MaxSteps int
	Overrun  bool
	active   bool
	wg       sync.WaitGroup
	// preemption inside library code: after `countdown` more preemption points the running task yields
	PreemptMean int // 0 = never preempt at points
	countdown   int
	pre         uint64 // state of the gap generator (its own: the tasks call Preempt, the pick stream belongs to the scheduler loop)
	Preemptions int
	Points      int64
}

func New(rng *sim.Rand) *Sched { return &Sched{rng: rng, cur: -1, MaxSteps: 200000} }

//go:norace
func futexWait(addr *uint32) {
	for *addr == 0 {
		syscall.Syscall6(syscall.SYS_FUTEX, uintptr(unsafe.Pointer(addr)), 0|128, 0, 0, 0, 0)
	}
	*addr = 0
}

//go:norace
func futexPost(addr *uint32) {
	*addr = 1
	syscall.Syscall6(syscall.SYS_FUTEX, uintptr(unsafe.Pointer(addr)), 1|128, 1, 0, 0, 0)
}

// Cur is the index of the running task, -1 outside Run.
//
//go:norace
func (s *Sched) Cur() int {
	if s == nil || !s.active {
		return -1
	}
	return s.cur
}

// Active reports whether tasks are being scheduled right now.
//
//go:norace
func (s *Sched) Active() bool { return s != nil && s.active }

// Yield hands the baton back to the scheduler; returns when this task is picked again.
//
//go:norace
func (s *Sched) Yield() {
	if s == nil || !s.active || s.cur < 0 {
		return
	}
	t := s.tasks[s.cur]
	futexPost(&s.mainWord)
	futexWait(&t.word)
}

// Preempt is called at every preemption point of the instrumented library. The gaps between two yields are
// drawn from the scheduler's PRNG (uniform on 1..2*PreemptMean), so the schedule is a function of the seed.
//
//go:norace
func (s *Sched) Preempt() {
	if s == nil || !s.active || s.cur < 0 || s.PreemptMean <= 0 {
		return
	}
	s.Points++
	if s.countdown <= 0 {
		// splitmix64 step, inline: nothing here may be visible to the race detector
		s.pre += 0x9E3779B97F4A7C15
		z := s.pre
		z = (z ^ (z >> 30)) * 0xBF58476D1CE4E5B9
		z = (z ^ (z >> 27)) * 0x94D049BB133111EB
		z ^= z >> 31
		s.countdown = 1 + int(z%uint64(2*s.PreemptMean))
	}
	s.countdown--
	if s.countdown > 0 {
		return
	}
	s.Preemptions++
	t := s.tasks[s.cur]
	futexPost(&s.mainWord)
	futexWait(&t.word)
}

// Block marks the running task as waiting for lock l and yields; it returns
// once somebody called Wake(l) and the scheduler picked the task again.
//
//go:norace
func (s *Sched) Block(l unsafe.Pointer) {
	if s == nil || !s.active || s.cur < 0 {
		return
	}
	t := s.tasks[s.cur]
	t.state = stBlocked
	t.blocked = l
	futexPost(&s.mainWord)
	futexWait(&t.word)
}

// Wake makes every task blocked on l runnable again (they re-check the lock).
//
//go:norace
func (s *Sched) Wake(l unsafe.Pointer) {
	if s == nil || !s.active {
		return
	}
	for _, t := range s.tasks {
		if t.state == stBlocked && t.blocked == l {
			t.state = stRunnable
			t.blocked = nil
		}
	}
}

//go:norace
func (s *Sched) finish(i int) {
	s.tasks[i].state = stDone
	futexPost(&s.mainWord)
}

//go:norace
func (s *Sched) begin(i int) { futexWait(&s.tasks[i].word) }

//go:norace
func (s *Sched) pick() int {
	var runnable []int
	undone := 0
	for i, t := range s.tasks {
		if t.state == stRunnable {
			runnable = append(runnable, i)
		}
		if t.state != stDone {
			undone++
		}
	}
	if len(runnable) == 0 {
		if undone > 0 {
			s.Deadlock = true
		}
		return -1
	}
	i := runnable[s.rng.Intn(len(runnable))]
	if s.cur != i && s.cur >= 0 {
		s.Switches++
	}
	if len(s.Trace) < 4096 {
		s.Trace = append(s.Trace, i)
	}
	return i
}

//go:norace
func (s *Sched) loop() {
	steps := 0
	for {
		i := s.pick()
		if i < 0 {
			break
		}
		steps++
		if steps > s.MaxSteps {
			s.Overrun = true
			break
		}
		s.cur = i
		futexPost(&s.tasks[i].word)
		futexWait(&s.mainWord)
	}
	s.cur = -1
}

//go:norace
func (s *Sched) setActive(b bool) { s.active = b }

// Run executes the task functions under the scheduler and returns when all
// have finished (or a deadlock / step overrun was detected, in which case the
// stuck goroutines are abandoned).
func (s *Sched) Run(fns []func()) {
	s.tasks = make([]*task, len(fns))
	for i := range fns {
		s.tasks[i] = &task{}
	}
	s.pre = s.rng.Uint64()
	s.setActive(true)
	for i, fn := range fns {
		i, fn := i, fn
		s.wg.Add(1)
		go func() {
			defer s.wg.Done()
			s.begin(i)
			defer s.finish(i)
			fn()
		}()
	}
	s.loop()
	if !s.Deadlock && !s.Overrun {
		s.wg.Wait() // real join: everything the tasks wrote happens-before what follows
	}
	s.setActive(false)
}
