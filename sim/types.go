package sim

import (
	"crypto/sha256"
	"encoding/hex"
	"encoding/json"
	"fmt"
	"sort"
	"strings"
	"unicode/utf8"
)

// Str is a byte string that survives JSON even when it is not valid UTF-8:
// bytes that are not part of a valid encoding are written as U+F700+b.
type Str string

func (s Str) MarshalJSON() ([]byte, error) {
	var b strings.Builder
	raw := string(s)
	for i := 0; i < len(raw); {
		r, n := utf8.DecodeRuneInString(raw[i:])
		if r == utf8.RuneError && n == 1 {
			b.WriteRune(rune(0xF700 + int(raw[i])))
		} else {
			b.WriteRune(r)
		}
		i += n
	}
	return json.Marshal(b.String())
}

func (s *Str) UnmarshalJSON(data []byte) error {
	var t string
	if err := json.Unmarshal(data, &t); err != nil {
		return err
	}
	var b []byte
	for _, r := range t {
		if r >= 0xF700 && r <= 0xF7FF {
			b = append(b, byte(r-0xF700))
		} else {
			b = utf8.AppendRune(b, r)
		}
	}
	*s = Str(b)
	return nil
}

// Op is one operation of a task: a call into the public API (or a simulator
// action such as restart or a fault), with its arguments as plain values.
type Op struct {
	K string    `json:"k"`           // kind
	D int       `json:"d,omitempty"` // target slot (document / engine / table index …)
	I []int     `json:"i,omitempty"`
	S []Str     `json:"s,omitempty"`
	F []float64 `json:"f,omitempty"`
}

func (o Op) Int(i int) int {
	if i < len(o.I) {
		return o.I[i]
	}
	return 0
}
func (o Op) Str(i int) string {
	if i < len(o.S) {
		return string(o.S[i])
	}
	return ""
}
func (o Op) Flt(i int) float64 {
	if i < len(o.F) {
		return o.F[i]
	}
	return 0
}

// Case is a complete, self-contained description of one simulated run: the
// replay file format. Executing a Case is a pure function of it and the code.
type Case struct {
	Prop      string         `json:"property"`
	Seed      uint64         `json:"seed"`
	Run       uint64         `json:"run"`
	Lane      string         `json:"lane,omitempty"` // "A" search, "B" directed witness
	Cfg       map[string]int `json:"cfg,omitempty"`  // swarm configuration of this run
	Tasks     [][]Op         `json:"tasks"`
	SchedSeed uint64         `json:"sched_seed,omitempty"`
	Order     string         `json:"order,omitempty"` // map-iteration policy
	OrderSeed uint64         `json:"order_seed,omitempty"`
	Expect    *Violation     `json:"expect,omitempty"`
	Note      string         `json:"note,omitempty"`
	// History lists cases (run indices of the same property, seed and tier) that are executed first, in this order and in the
	// same process: the violation needs what they leave behind in the process (state of the library that outlives a document).
	History     []uint64 `json:"process_history,omitempty"`
	HistoryTier string   `json:"process_history_tier,omitempty"`
}

func (c *Case) C(key string) int {
	if c.Cfg == nil {
		return 0
	}
	return c.Cfg[key]
}

func (c *Case) Clone() *Case {
	b, _ := json.Marshal(c)
	var d Case
	_ = json.Unmarshal(b, &d)
	return &d
}

// NOps is the number of operations over all tasks.
func (c *Case) NOps() int {
	n := 0
	for _, t := range c.Tasks {
		n += len(t)
	}
	return n
}

// Violation is what an oracle reports. Clause names the oracle sub-check,
// Sig is an input-independent signature, Detail is for people.
type Violation struct {
	Prop   string `json:"property"`
	Clause string `json:"clause"`
	Sig    string `json:"signature"`
	Detail string `json:"detail,omitempty"`
	Known  string `json:"known,omitempty"` // id of the matching KNOWN_FINDINGS entry, if any
}

func (v Violation) Key() string { return v.Prop + "|" + v.Clause + "|" + v.Sig }

// Stats are the reach measures of a run or a batch.
type Stats struct {
	Events int64            `json:"events"`
	Ops    map[string]int64 `json:"ops,omitempty"`
	Faults map[string]int64 `json:"faults_fired,omitempty"`
	Probes map[string]int64 `json:"probes,omitempty"`
}

func NewStats() *Stats {
	return &Stats{Ops: map[string]int64{}, Faults: map[string]int64{}, Probes: map[string]int64{}}
}

func (s *Stats) Op(k string)    { s.Ops[k]++; s.Events++ }
func (s *Stats) Fault(k string) { s.Faults[k]++ }
func (s *Stats) Probe(k string) { s.Probes[k]++ }
func (s *Stats) ProbeN(k string, n int64) {
	if n != 0 {
		s.Probes[k] += n
	}
}

func (s *Stats) Add(o *Stats) {
	if o == nil {
		return
	}
	s.Events += o.Events
	for k, v := range o.Ops {
		s.Ops[k] += v
	}
	for k, v := range o.Faults {
		s.Faults[k] += v
	}
	for k, v := range o.Probes {
		s.Probes[k] += v
	}
}

// Log is the event log of a run; its hash is the run's fingerprint.
type Log struct {
	h   [32]byte
	n   int64
	Rec []string // kept only when recording is on
	On  bool
}

// Event appends one event (already canonical text) to the log.
func (l *Log) Event(format string, a ...any) {
	s := fmt.Sprintf(format, a...)
	l.n++
	x := sha256.New()
	x.Write(l.h[:])
	x.Write([]byte(s))
	copy(l.h[:], x.Sum(nil))
	if l.On {
		l.Rec = append(l.Rec, s)
	}
}

func (l *Log) N() int64            { return l.n }
func (l *Log) Fingerprint() string { return hex.EncodeToString(l.h[:8]) }

// Digest is a short hash of arbitrary bytes for event logs.
func Digest(b []byte) string {
	h := sha256.Sum256(b)
	return hex.EncodeToString(h[:6])
}

// SortedKeys returns the keys of a string-keyed map in order: the harness
// itself never ranges over a map directly.
func SortedKeys[V any](m map[string]V) []string {
	ks := make([]string, 0, len(m))
	for k := range m {
		ks = append(ks, k)
	}
	sort.Strings(ks)
	return ks
}

// RunResult is what executing one case yields.
type RunResult struct {
	Viol       []Violation `json:"violations,omitempty"`
	Stats      *Stats      `json:"stats"`
	FP         string      `json:"fp"`
	Nontrivial bool        `json:"nontrivial"`
	Trace      []string    `json:"trace,omitempty"`
}
