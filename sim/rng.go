// Package sim is the simulation kernel: the PRNG every choice of a run is drawn
// from, the case/trace/violation types, and run statistics. It imports nothing
// from the library under test.
package sim

import "hash/fnv"

// SplitMix64 advances *s and returns the next value.
func SplitMix64(s *uint64) uint64 {
	*s += 0x9e3779b97f4a7c15
	z := *s
	z = (z ^ (z >> 30)) * 0xbf58476d1ce4e5b9
	z = (z ^ (z >> 27)) * 0x94d049bb133111eb
	return z ^ (z >> 31)
}

// Rand is xoshiro256**; one instance per run, never shared.
type Rand struct{ s [4]uint64 }

// NewRand seeds a generator from one integer.
func NewRand(seed uint64) *Rand {
	r := &Rand{}
	x := seed
	for i := range r.s {
		r.s[i] = SplitMix64(&x)
	}
	return r
}

// RunSeed derives the seed of run i of a property from VERIF_SEED.
func RunSeed(verifSeed uint64, prop string, i uint64) uint64 {
	h := fnv.New64a()
	h.Write([]byte(prop))
	x := verifSeed ^ h.Sum64() ^ (i * 0x9e3779b97f4a7c15)
	return SplitMix64(&x)
}

func rotl(x uint64, k uint) uint64 { return (x << k) | (x >> (64 - k)) }

// Uint64 returns the next 64 random bits.
func (r *Rand) Uint64() uint64 {
	s := &r.s
	res := rotl(s[1]*5, 7) * 9
	t := s[1] << 17
	s[2] ^= s[0]
	s[3] ^= s[1]
	s[1] ^= s[2]
	s[0] ^= s[3]
	s[2] ^= t
	s[3] = rotl(s[3], 45)
	return res
}

// Intn returns a value in [0,n). n<=0 yields 0.
func (r *Rand) Intn(n int) int {
	if n <= 1 {
		return 0
	}
	return int(r.Uint64() % uint64(n))
}

// Range returns a value in [lo,hi].
func (r *Rand) Range(lo, hi int) int {
	if hi <= lo {
		return lo
	}
	return lo + r.Intn(hi-lo+1)
}

// Float returns a value in [0,1).
func (r *Rand) Float() float64 { return float64(r.Uint64()>>11) / float64(1<<53) }

// Bool returns true with probability 1/2.
func (r *Rand) Bool() bool { return r.Uint64()&1 == 1 }

// Chance returns true with probability p.
func (r *Rand) Chance(p float64) bool { return r.Float() < p }

// Pick returns one of the strings.
func (r *Rand) Pick(xs ...string) string { return xs[r.Intn(len(xs))] }

// Perm returns a permutation of 0..n-1.
func (r *Rand) Perm(n int) []int {
	p := make([]int, n)
	for i := range p {
		p[i] = i
	}
	for i := n - 1; i > 0; i-- {
		j := r.Intn(i + 1)
		p[i], p[j] = p[j], p[i]
	}
	return p
}

// Fork derives an independent generator (for sub-streams such as per-task map order).
func (r *Rand) Fork() *Rand { return NewRand(r.Uint64()) }

// Pick2 returns one of the ints.
func (r *Rand) Pick2(xs ...int) int { return xs[r.Intn(len(xs))] }
